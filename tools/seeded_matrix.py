#!/usr/bin/env python3
"""Run every kept seeded change against the check of its property (and extra checks given in EXTRA),
write seeded/<id>/meta.json and print the matrix.  Usage: tools/seeded_matrix.py [ids...]"""
import json, os, subprocess, sys
ROOT = os.path.dirname(os.path.dirname(os.path.abspath(__file__)))
INFO = json.load(open(os.path.join(ROOT, "seeded", "INFO.json")))
ids = sys.argv[1:] or sorted(d for d in os.listdir(os.path.join(ROOT, "seeded")) if os.path.isdir(os.path.join(ROOT, "seeded", d)))
head = subprocess.run(["git", "-C", "/repo", "rev-parse", "--short", "HEAD"], stdout=subprocess.PIPE, text=True).stdout.strip()
rows = []
for i in ids:
    d = os.path.join(ROOT, "seeded", i)
    prop = i.split("-")[0]
    info = INFO.get(i, {})
    if info.get("superseded"):
        meta = {"id": i, "property": prop, "breaks": info.get("breaks", ""), "needs_to_manifest": info.get("needs", ""), "superseded": info["superseded"], "history": info.get("history", ""), "detected": None}
        json.dump(meta, open(os.path.join(d, "meta.json"), "w"), indent=1)
        print(i, "superseded:", info["superseded"][:120], flush=True)
        continue
    checks = [prop] + info.get("also", [])
    out = subprocess.run([os.path.join(ROOT, "tools", "try_seeded.sh"), os.path.join(d, "patch.diff")] + checks, stdout=subprocess.PIPE, stderr=subprocess.STDOUT, text=True).stdout
    det = []
    for l in out.splitlines():
        parts = l.split(" ", 2)
        if len(parts) >= 2 and parts[1].startswith("rc="):
            sigs = parts[2].split(" :: ")[0].strip().rstrip(";").split(";") if len(parts) > 2 else []
            det.append({"check": parts[0], "tier": "quick", "seed": 1, "exit": int(parts[1][3:]), "signatures": [s for s in sigs if s]})
    meta = {
        "id": i, "property": prop, "breaks": info.get("breaks", ""), "needs_to_manifest": info.get("needs", ""),
        "origin": "independent sub-agent given only the property text and a scratch worktree" + (" (patch re-based by hand onto a later fix commit, same mutation)" if info.get("rebased") else ""),
        "applies_to_repo_commit": head,
        "confirmed": "tools/confirm_seeded.sh: patch applies; `cargo test --offline` passes with the change (87 tests); demo.rs (as tests/demo.rs) fails with the change and passes without it",
        "ran": "tools/try_seeded.sh seeded/%s/patch.diff %s  (git -C /repo apply; ./check <Cxx> --tier quick; git -C /repo checkout -- .)" % (i, " ".join(checks)),
        "detected_by": det,
        "detected": any(x["exit"] == 1 for x in det),
        "history": info.get("history", ""),
    }
    json.dump(meta, open(os.path.join(d, "meta.json"), "w"), indent=1)
    rows.append((i, meta["detected"], "; ".join("%s:%s" % (x["check"], ",".join(x["signatures"][:2]) or "rc=%d" % x["exit"]) for x in det)))
    print(i, "DETECTED" if meta["detected"] else "missed", rows[-1][2][:160], flush=True)
print("%d/%d detected" % (sum(1 for r in rows if r[1]), len(rows)))
