#!/usr/bin/env python3
"""Print the markdown table of DESIGN.md section 12.4 from seeded/*/meta.json."""
import json, os
ROOT = os.path.dirname(os.path.dirname(os.path.abspath(__file__)))
print("| id | breaks | needs in order to manifest | caught by (first signatures) |")
print("|---|---|---|---|")
for i in sorted(os.listdir(os.path.join(ROOT, "seeded"))):
    f = os.path.join(ROOT, "seeded", i, "meta.json")
    if not os.path.isfile(f):
        continue
    m = json.load(open(f))
    esc = lambda t: t.replace("|", "\\|")
    if m.get("superseded"):
        by = "superseded: " + m["superseded"]
    else:
        by = "; ".join("%s: %s" % (d["check"], ", ".join(d["signatures"][:2])) for d in m.get("detected_by", []) if d["exit"] == 1) or "NOT CAUGHT"
    print("| %s | %s | %s | %s |" % (i, esc(m.get("breaks", "")), esc(m.get("needs_to_manifest", "")), esc(by)))
