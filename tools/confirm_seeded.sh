#!/bin/bash
# Confirm a seeded change independently in a scratch worktree:
#   tools/confirm_seeded.sh <worktree> <dir with patch.diff and demo.rs>
# 1. patch applies  2. existing tests pass with it  3. demo fails with it  4. demo passes without it
set -u
wt="$1"; d="$2"
cd "$wt" || exit 9
git checkout -q -- . ; rm -f tests/demo.rs
git apply --check "$d/patch.diff" || { echo "RESULT patch-does-not-apply"; exit 1; }
git apply "$d/patch.diff"
t1=$(timeout 600 cargo test --offline 2>&1 | grep -E "^test result" | awk '{p+=$4; f+=$6} END {print p" passed "f" failed"}')
cp "$d/demo.rs" tests/demo.rs
timeout 600 cargo test --offline --test demo > /tmp/demo_with.$$ 2>&1; rc_with=$?
git checkout -q -- .
timeout 600 cargo test --offline --test demo > /tmp/demo_without.$$ 2>&1; rc_without=$?
rm -f tests/demo.rs
echo "RESULT existing-tests-with-change: $t1 | demo-with-change rc=$rc_with ($(grep -E '^test result' /tmp/demo_with.$$ | head -1)) | demo-without-change rc=$rc_without ($(grep -E '^test result' /tmp/demo_without.$$ | head -1))"
rm -f /tmp/demo_with.$$ /tmp/demo_without.$$
git checkout -q -- . ; git clean -fdq tests 2>/dev/null
