#!/usr/bin/env python3
"""Regenerates /verif/MANIFEST.json from props.json (one entry per claimed property)."""
import json
import os

ROOT = os.path.dirname(os.path.dirname(os.path.abspath(__file__)))


def main():
    props = json.load(open(os.path.join(ROOT, "props.json")))
    all_ids = [json.loads(l)["id"] for l in open(os.path.join(ROOT, "properties.jsonl")) if l.strip()]
    checks = []
    na = []
    for pid in all_ids:
        m = props.get(pid)
        if not m or m.get("not_applicable"):
            na.append({"property_id": pid, "reason": (m or {}).get("not_applicable", "check not built yet (work in progress; see DESIGN.md section 5)")})
            continue
        checks.append({
            "property_id": pid,
            "quick_cmd": "./check %s --tier quick" % pid,
            "thorough_cmd": "./check %s --tier thorough" % pid,
            "evidence_file": "/verif/evidence/%s.json" % pid,
            "replay_cmd_template": "./check %s --replay {path}" % pid,
            "engine": m.get("engine", "vmon"),
            "level_claimed": {"category": m.get("level", "exploration"), "text": m["level_text"], "design_ref": m.get("design_ref", "DESIGN.md section 5")},
            "level_note": m["level_note"],
            "technique": m["technique"],
        })
    engines = {}
    for pid, m in props.items():
        if m.get("not_applicable"):
            continue
        engines.setdefault(m.get("engine", "vmon"), []).append(pid)
    man = {
        "version": 1,
        "setup_cmd": "./check --build",
        "hooks": {
            "guard": "(none - no source hooks: all observation points are libc entry points interposed inside the harness binary)",
            "enable": "cd /verif/harness && cargo build --release --offline (links /repo as a path dependency, unmodified, together with harness/src/vmon/interpose.rs)",
            "baseline_off_cmd": "cd /repo && cargo test --workspace --no-fail-fast --offline",
            "source_commits": [],
            "add_only": True,
        },
        "engines": [
            {"name": k, "path": "harness/src/vmon", "serves_properties": sorted(v),
             "kind_free_text": "runtime monitor: real library code linked with libc interposers, scripted child (vchild), /proc inspector, oracles per property"}
            for k, v in sorted(engines.items())
        ],
        "checks": checks,
        "not_applicable": na,
        "notes": "Technique family: runtime monitoring and sanitizers. Every check runs the real crate from /repo's working tree against real child processes; verdicts come from monitors over recorded system-call events, child self-reports and /proc state. Fixed genuine defects and known findings: known_findings.json. See DESIGN.md.",
    }
    with open(os.path.join(ROOT, "MANIFEST.json"), "w") as f:
        json.dump(man, f, indent=1)
        f.write("\n")
    print("MANIFEST.json: %d checks, %d not_applicable" % (len(checks), len(na)))
    return 0


if __name__ == "__main__":
    raise SystemExit(main())
