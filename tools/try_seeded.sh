#!/bin/bash
# Apply a seeded change to /repo, run the given checks, undo the change.
#   tools/try_seeded.sh <patch.diff> <Cxx> [<Cyy> ...]
# Prints one line per check: "<Cxx> rc=<n> first signature". Never leaves /repo modified.
set -u
patch="$1"; shift
cd /verif
if ! git -C /repo diff --quiet; then echo "/repo has uncommitted changes; refusing"; exit 3; fi
if ! git -C /repo apply --check "$patch" 2>/dev/null; then echo "patch does not apply: $patch"; exit 4; fi
git -C /repo apply "$patch"
trap 'git -C /repo checkout -- . ; git -C /repo clean -fdq -- src tests 2>/dev/null' EXIT
for c in "$@"; do
  out=$(VERIF_SEED=${VERIF_SEED:-1} timeout 900 ./check "$c" --tier "${TIER:-quick}" 2>&1)
  rc=$?
  sig=$(echo "$out" | grep -m3 "signature:" | sed 's/ *signature: //' | tr '\n' ';')
  inc=$(echo "$out" | grep -m1 "^INCONCLUSIVE" | cut -c1-200)
  echo "$c rc=$rc ${sig}${inc} :: $(echo "$out" | head -1 | cut -c1-120)"
done
