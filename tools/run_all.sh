#!/bin/bash
# Run every check (quick tier unless TIER=thorough) on the unchanged tree; refuses if /repo is modified.
cd /verif
if ! git -C /repo diff --quiet; then echo "/repo has uncommitted changes"; exit 3; fi
rc_all=0
for i in $(seq -w 1 20); do c=C$i; out=$(./check $c --tier ${TIER:-quick} 2>&1); rc=$?; echo "$c rc=$rc $(echo "$out" | head -1 | cut -c1-110)"; if [ $rc -ne 0 ]; then rc_all=1; echo "$out" | grep -E "signature|INCONCLUSIVE" | sort | uniq -c | head -5; fi; done
python3 - <<'PY'
import json,glob
bad=[f for f in glob.glob('/verif/evidence/C*.json') if json.load(open(f)).get('verdict')!='held on what was observed']
print("evidence not clean:", bad)
PY
exit $rc_all
