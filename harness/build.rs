// Extracts the cfg(windows) code of the crate under test so that it can be
// executed on Linux against a UTF-16 shim:
//   * popen.rs: fn format_env_block, fn assemble_cmdline, fn append_quoted
//   * communicate.rs: the whole `#[cfg(windows)] mod raw { ... }`
// The source text is copied verbatim (brace matching), at every build.

use std::fs;
use std::path::Path;

fn skip_to_matching_brace(src: &[char], open: usize) -> Option<usize> {
    // src[open] == '{' ; returns index of the matching '}'
    let mut depth = 0usize;
    let mut i = open;
    let n = src.len();
    while i < n {
        let c = src[i];
        match c {
            '/' if i + 1 < n && src[i + 1] == '/' => {
                while i < n && src[i] != '\n' {
                    i += 1;
                }
                continue;
            }
            '/' if i + 1 < n && src[i + 1] == '*' => {
                let mut d = 1;
                i += 2;
                while i + 1 < n && d > 0 {
                    if src[i] == '/' && src[i + 1] == '*' {
                        d += 1;
                        i += 2;
                    } else if src[i] == '*' && src[i + 1] == '/' {
                        d -= 1;
                        i += 2;
                    } else {
                        i += 1;
                    }
                }
                continue;
            }
            '"' => {
                i += 1;
                while i < n && src[i] != '"' {
                    if src[i] == '\\' {
                        i += 1;
                    }
                    i += 1;
                }
            }
            'r' if i + 1 < n && (src[i + 1] == '"' || src[i + 1] == '#') && (i == 0 || !(src[i - 1].is_alphanumeric() || src[i - 1] == '_')) => {
                // raw string r"..." / r#"..."#
                let mut j = i + 1;
                let mut hashes = 0;
                while j < n && src[j] == '#' {
                    hashes += 1;
                    j += 1;
                }
                if j < n && src[j] == '"' {
                    j += 1;
                    'outer: while j < n {
                        if src[j] == '"' {
                            let mut k = 0;
                            while k < hashes && j + 1 + k < n && src[j + 1 + k] == '#' {
                                k += 1;
                            }
                            if k == hashes {
                                i = j + hashes;
                                break 'outer;
                            }
                        }
                        j += 1;
                    }
                }
            }
            '\'' => {
                // char literal or lifetime
                if i + 1 < n && src[i + 1] == '\\' {
                    i += 2;
                    while i < n && src[i] != '\'' {
                        i += 1;
                    }
                } else if i + 2 < n && src[i + 2] == '\'' {
                    i += 2;
                }
            }
            '{' => depth += 1,
            '}' => {
                depth -= 1;
                if depth == 0 {
                    return Some(i);
                }
            }
            _ => {}
        }
        i += 1;
    }
    None
}

fn find_from(src: &[char], pat: &str, from: usize) -> Option<usize> {
    let p: Vec<char> = pat.chars().collect();
    if p.is_empty() || src.len() < p.len() {
        return None;
    }
    (from..=src.len() - p.len()).find(|&i| src[i..i + p.len()] == p[..])
}

/// Extract `fn <name>` (with its body) searching from `from`.
fn extract_fn(src: &[char], name: &str, from: usize) -> Option<String> {
    let pat = format!("fn {}(", name);
    let pat2 = format!("fn {}<", name);
    let at = find_from(src, &pat, from).or_else(|| find_from(src, &pat2, from))?;
    let open = (at..src.len()).find(|&i| src[i] == '{')?;
    let close = skip_to_matching_brace(src, open)?;
    Some(src[at..=close].iter().collect())
}

fn main() {
    let repo = std::env::var("VERIF_REPO").unwrap_or_else(|_| "/repo".to_string());
    let out = std::env::var("OUT_DIR").unwrap();
    println!("cargo:rerun-if-env-changed=VERIF_REPO");
    println!("cargo:rerun-if-changed={}/src/popen.rs", repo);
    println!("cargo:rerun-if-changed={}/src/communicate.rs", repo);
    println!("cargo:rerun-if-changed=build.rs");

    // ---- popen.rs ----------------------------------------------------
    let mut gen = String::new();
    let mut ok = true;
    match fs::read_to_string(format!("{}/src/popen.rs", repo)) {
        Ok(text) => {
            let src: Vec<char> = text.chars().collect();
            // the windows `mod os` is the one following "#[cfg(windows)]\nmod os {"
            let start = find_from(&src, "#[cfg(windows)]\nmod os {", 0).unwrap_or(0);
            // the windows `mod os { ... }` block: helper functions are looked up inside it only
            let block_end = (start..src.len()).find(|&i| src[i] == '{').and_then(|o| skip_to_matching_brace(&src, o)).unwrap_or(src.len());
            let block: Vec<char> = src[start..block_end].to_vec();
            // names of all free functions defined in the block
            let mut defined: Vec<String> = vec![];
            {
                let mut i = 0;
                while let Some(at) = find_from(&block, "fn ", i) {
                    let prev_ok = at == 0 || !(block[at - 1].is_alphanumeric() || block[at - 1] == '_');
                    let mut j = at + 3;
                    let mut name = String::new();
                    while j < block.len() && (block[j].is_alphanumeric() || block[j] == '_') {
                        name.push(block[j]);
                        j += 1;
                    }
                    if prev_ok && !name.is_empty() && !defined.contains(&name) {
                        defined.push(name);
                    }
                    i = at + 3;
                }
            }
            // free functions defined anywhere in the file (candidates for shared helpers)
            let mut defined_all: Vec<String> = vec![];
            {
                let mut i = 0;
                while let Some(at) = find_from(&src, "fn ", i) {
                    let prev_ok = at == 0 || !(src[at - 1].is_alphanumeric() || src[at - 1] == '_');
                    let mut j = at + 3;
                    let mut name = String::new();
                    while j < src.len() && (src[j].is_alphanumeric() || src[j] == '_') {
                        name.push(src[j]);
                        j += 1;
                    }
                    if prev_ok && !name.is_empty() && !defined_all.contains(&name) {
                        defined_all.push(name);
                    }
                    i = at + 3;
                }
            }
            for d in &defined_all {
                if !defined.contains(d) {
                    defined.push(d.clone());
                }
            }
            // the three entry points plus, transitively, every helper function of the block that they call
            let mut wanted: Vec<String> = vec!["format_env_block".into(), "assemble_cmdline".into(), "append_quoted".into()];
            let mut done: Vec<String> = vec![];
            while let Some(name) = wanted.pop() {
                if done.contains(&name) {
                    continue;
                }
                // helpers are looked up in the windows block first, then (shared helpers) in the whole file
                let found = extract_fn(&block, &name, 0).or_else(|| if defined_all.contains(&name) { extract_fn(&src, &name, 0) } else { None });
                match found {
                    Some(body) => {
                        for d in &defined {
                            if !done.contains(d) && !wanted.contains(d) && *d != name {
                                let call = format!("{}(", d);
                                let bc: Vec<char> = body.chars().collect();
                                let mut from = 0;
                                while let Some(p) = find_from(&bc, &call, from) {
                                    let prev_ok = p == 0 || !(bc[p - 1].is_alphanumeric() || bc[p - 1] == '_' || bc[p - 1] == '.' || bc[p - 1] == ':');
                                    if prev_ok {
                                        wanted.push(d.clone());
                                        break;
                                    }
                                    from = p + 1;
                                }
                            }
                        }
                        // nested helper fns (fn inside fn) are part of the body already: do not emit them twice
                        if !gen.contains(&format!("fn {}(", name)) {
                            gen.push_str(&body);
                            gen.push_str("\n\n");
                        }
                        done.push(name);
                    }
                    None => {
                        if ["format_env_block", "assemble_cmdline", "append_quoted"].contains(&name.as_str()) {
                            ok = false;
                        }
                    }
                }
            }
        }
        Err(_) => ok = false,
    }
    // data items of the windows block (thread_local!, static, const) that the extracted functions refer to
    let mut data_items = String::new();
    if ok {
        if let Ok(text) = fs::read_to_string(format!("{}/src/popen.rs", repo)) {
            let src: Vec<char> = text.chars().collect();
            let start = find_from(&src, "#[cfg(windows)]\nmod os {", 0).unwrap_or(0);
            let block_end = (start..src.len()).find(|&i| src[i] == '{').and_then(|o| skip_to_matching_brace(&src, o)).unwrap_or(src.len());
            let block: Vec<char> = src[start..block_end].to_vec();
            let ident_at = |v: &[char], mut j: usize| -> String {
                let mut name = String::new();
                while j < v.len() && (v[j].is_alphanumeric() || v[j] == '_') {
                    name.push(v[j]);
                    j += 1;
                }
                name
            };
            // thread_local! { ... }
            let mut i = 0;
            while let Some(at) = find_from(&block, "thread_local!", i) {
                if let Some(open) = (at..block.len()).find(|&k| block[k] == '{' || block[k] == '(') {
                    let close = if block[open] == '{' { skip_to_matching_brace(&block, open) } else { (open..block.len()).find(|&k| block[k] == ';') };
                    if let Some(close) = close {
                        let item: String = block[at..=close].iter().collect();
                        // names declared inside
                        let ic: Vec<char> = item.chars().collect();
                        let mut used = false;
                        let mut j = 0;
                        while let Some(p) = find_from(&ic, "static ", j) {
                            let name = ident_at(&ic, p + 7);
                            if !name.is_empty() && gen.contains(&name) {
                                used = true;
                            }
                            j = p + 7;
                        }
                        if used {
                            data_items.push_str(&item);
                            data_items.push_str("\n");
                        }
                        i = close + 1;
                        continue;
                    }
                }
                i = at + 13;
            }
            // static NAME ... ; / const NAME ... ;  (outside functions: preceded by a newline and indentation only)
            for kw in ["static ", "const "] {
                let mut i = 0;
                while let Some(at) = find_from(&block, kw, i) {
                    i = at + kw.len();
                    // start of line?
                    let mut b = at;
                    while b > 0 && (block[b - 1] == ' ' || block[b - 1] == '\t') {
                        b -= 1;
                    }
                    let line_start = b == 0 || block[b - 1] == '\n';
                    let pub_prefix = b >= 4 && block[b.saturating_sub(4)..b].iter().collect::<String>() == "pub ";
                    if !line_start && !pub_prefix {
                        continue;
                    }
                    let name = ident_at(&block, at + kw.len());
                    if name.is_empty() || name == "fn" || name == "unsafe" || !name.chars().next().unwrap().is_uppercase() || !gen.contains(&name) || data_items.contains(&format!(" {}:", name)) {
                        continue;
                    }
                    // until the ';' at depth 0
                    let mut depth = 0i32;
                    let mut k = at;
                    let mut end = None;
                    while k < block.len() {
                        match block[k] {
                            '{' | '(' | '[' => depth += 1,
                            '}' | ')' | ']' => depth -= 1,
                            ';' if depth == 0 => {
                                end = Some(k);
                                break;
                            }
                            _ => {}
                        }
                        k += 1;
                    }
                    if let Some(end) = end {
                        let item: String = block[at..=end].iter().collect();
                        data_items.push_str(&item);
                        data_items.push_str("\n");
                    }
                }
            }
        }
    }
    // win32.rs: the conversion of the command line to the NUL-terminated UTF-16 buffer handed to CreateProcessW
    let mut nullterm = String::new();
    if let Ok(text) = fs::read_to_string(format!("{}/src/win32.rs", repo)) {
        let src: Vec<char> = text.chars().collect();
        if let Some(body) = extract_fn(&src, "to_nullterm", 0) {
            // constants of the file that the function refers to
            for kw in ["const ", "static "] {
                let mut i = 0;
                while let Some(at) = find_from(&src, kw, i) {
                    i = at + kw.len();
                    let line_start = at == 0 || src[at - 1] == '\n' || (at >= 4 && src[at - 4..at].iter().collect::<String>() == "pub ");
                    let mut name = String::new();
                    let mut j = at + kw.len();
                    while j < src.len() && (src[j].is_alphanumeric() || src[j] == '_') {
                        name.push(src[j]);
                        j += 1;
                    }
                    if !line_start || name.is_empty() || !name.chars().next().unwrap().is_uppercase() || !body.contains(&name) {
                        continue;
                    }
                    if let Some(end) = (at..src.len()).find(|&k| src[k] == ';') {
                        nullterm.push_str(&src[at..=end].iter().collect::<String>());
                        nullterm.push('\n');
                    }
                }
            }
            nullterm.push_str(&body);
        }
    }
    println!("cargo:rerun-if-changed={}/src/win32.rs", repo);
    let mut f = String::new();
    f.push_str("// @generated by build.rs from /repo/src/popen.rs (cfg(windows) items, verbatim)\n");
    if ok {
        f.push_str("pub const EXTRACTED: bool = true;\n");
        f.push_str("#[allow(dead_code, unused_imports, clippy::all)]\nmod items {\n");
        f.push_str("use crate::winshim::{OsStrExt, OsStringExt};\nuse std::collections::HashSet;\nuse std::ffi::{OsStr, OsString};\nuse std::io;\n");
        f.push_str("use std::cell::{Cell, RefCell};\nuse std::iter;\nuse std::cmp;\nuse std::mem;\n");
        f.push_str("pub mod win32 { pub const ERROR_BAD_PATHNAME: u32 = 161; }\n");
        f.push_str(&data_items);
        f.push_str(&gen);
        if !nullterm.is_empty() {
            f.push_str(&nullterm);
            f.push_str("\npub fn call_to_nullterm(s: &OsStr) -> Vec<u16> { to_nullterm(s) }\npub const HAS_NULLTERM: bool = true;\n");
        } else {
            f.push_str("pub fn call_to_nullterm(_s: &OsStr) -> Vec<u16> { unreachable!() }\npub const HAS_NULLTERM: bool = false;\n");
        }
        f.push_str("pub fn call_assemble_cmdline(argv: Vec<OsString>) -> io::Result<OsString> { assemble_cmdline(argv) }\n");
        f.push_str("pub fn call_format_env_block(env: &[(OsString, OsString)]) -> Vec<u16> { format_env_block(env) }\n");
        f.push_str("}\npub use items::{call_assemble_cmdline, call_format_env_block, call_to_nullterm, HAS_NULLTERM};\n");
    } else {
        f.push_str("pub const EXTRACTED: bool = false;\n");
        f.push_str("pub fn call_assemble_cmdline(_argv: Vec<std::ffi::OsString>) -> std::io::Result<std::ffi::OsString> { unreachable!() }\n");
        f.push_str("pub fn call_format_env_block(_env: &[(std::ffi::OsString, std::ffi::OsString)]) -> Vec<u16> { unreachable!() }\n");
        f.push_str("pub fn call_to_nullterm(_s: &std::ffi::OsStr) -> Vec<u16> { unreachable!() }\npub const HAS_NULLTERM: bool = false;\n");
    }
    fs::write(Path::new(&out).join("win_popen.rs"), f).unwrap();

    // ---- communicate.rs ------------------------------------------------
    let mut f = String::new();
    f.push_str("// @generated by build.rs from /repo/src/communicate.rs (cfg(windows) mod raw, verbatim)\n");
    let mut ok = false;
    if let Ok(text) = fs::read_to_string(format!("{}/src/communicate.rs", repo)) {
        let src: Vec<char> = text.chars().collect();
        if let Some(at) = find_from(&src, "#[cfg(windows)]\nmod raw {", 0) {
            if let Some(open) = (at..src.len()).find(|&i| src[i] == '{') {
                if let Some(close) = skip_to_matching_brace(&src, open) {
                    let body: String = src[open + 1..close].iter().collect();
                    f.push_str("pub const EXTRACTED: bool = true;\n#[allow(dead_code, unused_imports, clippy::all, bare_trait_objects)]\npub mod raw {\n");
                    f.push_str(&body);
                    f.push_str("\n}\n");
                    ok = true;
                }
            }
        }
    }
    if !ok {
        f.push_str("pub const EXTRACTED: bool = false;\n");
        f.push_str("pub mod raw { use std::fs::File; use std::io; use std::time::Instant; #[derive(Debug)] pub struct RawCommunicator; impl RawCommunicator { pub fn new(_: Option<File>, _: Option<File>, _: Option<File>, _: Option<Vec<u8>>) -> RawCommunicator { RawCommunicator } pub fn read(&mut self, _: Option<Instant>, _: Option<usize>) -> (Option<io::Error>, (Option<Vec<u8>>, Option<Vec<u8>>)) { unreachable!() } } }\n");
    }
    fs::write(Path::new(&out).join("win_comm.rs"), f).unwrap();
}
