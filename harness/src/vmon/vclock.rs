// Virtual monotonic clock for the subject thread(s).
// virtual_now = real_monotonic + SKEW.  Sleeps and idle polls advance SKEW
// instead of consuming wall time; planned child exits are delivered at
// their virtual due time.

use std::sync::atomic::{AtomicBool, AtomicI32, AtomicI64, AtomicU64, Ordering::SeqCst};

pub static ENABLED: AtomicBool = AtomicBool::new(false);
/// pure mode: the real clock is frozen at enable time; time advances only through sleeps, idle polls,
/// a tick per clock read and a configurable cost per poll/read/write.  Fully deterministic.
pub static PURE: AtomicBool = AtomicBool::new(false);
pub static FROZEN: AtomicI64 = AtomicI64::new(0);
pub static TICK_NS: AtomicI64 = AtomicI64::new(1000);
pub static OP_COST_NS: AtomicI64 = AtomicI64::new(0);
pub static TICKS: AtomicU64 = AtomicU64::new(0);
pub static SKEW: AtomicI64 = AtomicI64::new(0);
/// real milliseconds an interposed poll() with a finite timeout really waits before the rest is skipped
pub static POLL_CAP_MS: AtomicI64 = AtomicI64::new(5);
/// maximum injected oversleep (ns) added to every virtual sleep; drawn uniformly from 0..=JITTER_NS
pub static JITTER_NS: AtomicI64 = AtomicI64::new(0);
static JSTATE: AtomicU64 = AtomicU64::new(0x1234_5678_9abc_def1);

// planned child exit (C09-C11)
pub static EXIT_AT: AtomicI64 = AtomicI64::new(0); // virtual ns, 0 = none
pub static EXIT_FD: AtomicI32 = AtomicI32::new(-1);
pub static EXIT_PID: AtomicI32 = AtomicI32::new(0);
pub static EXIT_CMD: AtomicI32 = AtomicI32::new(0); // cmd0 | cmd1<<8
pub static EXIT_FIRED_AT: AtomicI64 = AtomicI64::new(0);
/// the kernel's verdict on the child at the moment the planned exit was delivered: si_code | si_status << 8 (0 = unknown)
pub static EXIT_SIGINFO: AtomicI64 = AtomicI64::new(0);

// statistics
pub static SLEEPS: AtomicU64 = AtomicU64::new(0);
pub static SLEPT_NS: AtomicU64 = AtomicU64::new(0);
pub static TOTAL_JITTER_NS: AtomicU64 = AtomicU64::new(0);

pub fn real_ns() -> u64 {
    let mut ts = libc::timespec { tv_sec: 0, tv_nsec: 0 };
    unsafe {
        crate::interpose::real_clock_gettime(libc::CLOCK_MONOTONIC, &mut ts);
    }
    ts.tv_sec as u64 * 1_000_000_000 + ts.tv_nsec as u64
}

#[inline]
pub fn now_ns() -> u64 {
    if ENABLED.load(SeqCst) && PURE.load(SeqCst) {
        return (FROZEN.load(SeqCst) + SKEW.load(SeqCst)) as u64;
    }
    (real_ns() as i64 + SKEW.load(SeqCst)) as u64
}

/// A clock read by the subject in pure mode: returns the time and advances it by one tick.
pub fn read_and_tick() -> u64 {
    let t = now_ns();
    let tick = TICK_NS.load(SeqCst);
    if tick > 0 {
        SKEW.fetch_add(tick, SeqCst);
        TICKS.fetch_add(1, SeqCst);
    }
    t
}

pub fn op_cost() {
    let c = OP_COST_NS.load(SeqCst);
    if c > 0 && ENABLED.load(SeqCst) {
        SKEW.fetch_add(c, SeqCst);
    }
}

pub fn enable_pure(cap_ms: i64, jitter_ns: i64, seed: u64, tick_ns: i64, op_cost_ns: i64) {
    enable(cap_ms, jitter_ns, seed);
    FROZEN.store(real_ns() as i64, SeqCst);
    TICK_NS.store(tick_ns, SeqCst);
    OP_COST_NS.store(op_cost_ns, SeqCst);
    TICKS.store(0, SeqCst);
    PURE.store(true, SeqCst);
}

/// After this many virtual sleeps (counted from enable) one sleep oversleeps up to the absolute virtual time JUMP_TO:
/// the machine was suspended, the thread was not scheduled for weeks - legitimate behaviour of an operating system.
pub static JUMP_AFTER_SLEEPS: AtomicU64 = AtomicU64::new(0);
pub static JUMP_TO: AtomicI64 = AtomicI64::new(0);
/// pid of a controlled child that is known never to exit on its own: a wait without WNOHANG on it would never return.
/// The interposer ends such a call (reserved errno) and counts it here.
pub static NEVER_EXITS_PID: AtomicI32 = AtomicI32::new(0);
pub static BLOCKING_WAITS_ON_NEVER_EXITING: AtomicU64 = AtomicU64::new(0);

pub fn pure() -> bool {
    ENABLED.load(SeqCst) && PURE.load(SeqCst)
}

/// real time the subject spent asleep in a blocking call, charged to the deterministic clock
pub static BLOCKED_NS: AtomicU64 = AtomicU64::new(0);

pub fn charge_blocked(ns: i64) {
    if ns > 0 {
        BLOCKED_NS.fetch_add(ns as u64, SeqCst);
        advance(ns);
    }
}

pub fn enabled() -> bool {
    ENABLED.load(SeqCst)
}

pub fn enable(cap_ms: i64, jitter_ns: i64, seed: u64) {
    SKEW.store(0, SeqCst);
    POLL_CAP_MS.store(cap_ms, SeqCst);
    JITTER_NS.store(jitter_ns, SeqCst);
    JSTATE.store(seed | 1, SeqCst);
    PURE.store(false, SeqCst);
    EXIT_AT.store(0, SeqCst);
    EXIT_FIRED_AT.store(0, SeqCst);
    SLEEPS.store(0, SeqCst);
    SLEPT_NS.store(0, SeqCst);
    TOTAL_JITTER_NS.store(0, SeqCst);
    BLOCKED_NS.store(0, SeqCst);
    JUMP_AFTER_SLEEPS.store(0, SeqCst);
    JUMP_TO.store(0, SeqCst);
    NEVER_EXITS_PID.store(0, SeqCst);
    BLOCKING_WAITS_ON_NEVER_EXITING.store(0, SeqCst);
    ENABLED.store(true, SeqCst);
}

pub fn disable() {
    ENABLED.store(false, SeqCst);
    PURE.store(false, SeqCst);
    OP_COST_NS.store(0, SeqCst);
    SKEW.store(0, SeqCst);
    EXIT_AT.store(0, SeqCst);
}

pub fn advance(ns: i64) {
    if ns > 0 {
        SKEW.fetch_add(ns, SeqCst);
    }
}

fn jitter() -> i64 {
    let j = JITTER_NS.load(SeqCst);
    if j <= 0 {
        return 0;
    }
    let mut x = JSTATE.load(SeqCst);
    x ^= x << 13;
    x ^= x >> 7;
    x ^= x << 17;
    JSTATE.store(x, SeqCst);
    (x % (j as u64 + 1)) as i64
}

/// Plan the child's exit at virtual time `at` (absolute ns).
pub fn plan_exit(at: i64, fifo_fd: i32, pid: i32, cmd0: u8, cmd1: u8) {
    EXIT_FD.store(fifo_fd, SeqCst);
    EXIT_PID.store(pid, SeqCst);
    EXIT_CMD.store(cmd0 as i32 | (cmd1 as i32) << 8, SeqCst);
    EXIT_FIRED_AT.store(0, SeqCst);
    EXIT_SIGINFO.store(0, SeqCst);
    EXIT_AT.store(at, SeqCst);
}

/// Make the planned exit happen now (really): tell the child, wait until it is a zombie.
pub fn fire_exit() {
    let fd = EXIT_FD.load(SeqCst);
    let pid = EXIT_PID.load(SeqCst);
    let cmd = EXIT_CMD.load(SeqCst);
    EXIT_AT.store(0, SeqCst);
    if fd < 0 || pid <= 0 {
        return;
    }
    let b = [cmd as u8, (cmd >> 8) as u8];
    unsafe {
        crate::rsys!(libc::SYS_write, fd, b.as_ptr(), 2usize);
        // wait (without reaping) until the child has really terminated
        let mut info: libc::siginfo_t = std::mem::zeroed();
        loop {
            let r = crate::rsys!(libc::SYS_waitid, libc::P_PID, pid, &mut info as *mut _, libc::WEXITED | libc::WNOWAIT, 0usize);
            if r == 0 {
                EXIT_SIGINFO.store(info.si_code as i64 | (info.si_status() as i64) << 8, SeqCst);
                break;
            }
            if *libc::__errno_location() != libc::EINTR {
                break;
            }
        }
    }
    EXIT_FIRED_AT.store(now_ns() as i64, SeqCst);
}

/// Spin guard (off while SPIN_LIMIT is 0): status checks without WNOHANG blocking that follow one another with no
/// sleep of a positive length in between.  When SPIN_LIMIT of them have been seen the loop is a busy-wait; on the
/// virtual clock (where a clock read costs one tick) it would not reach a deadline weeks away in the lifetime of
/// the run, so the guard records it and lets the clock run ahead by a hundred days to bring the call to its end.
pub static SPIN_LIMIT: AtomicU64 = AtomicU64::new(0);
pub static SPIN_COUNT: AtomicU64 = AtomicU64::new(0);
pub static SPINS_BROKEN: AtomicU64 = AtomicU64::new(0);

pub fn note_status_check() {
    let lim = SPIN_LIMIT.load(SeqCst);
    if lim == 0 || !pure() {
        return;
    }
    if SPIN_COUNT.fetch_add(1, SeqCst) + 1 >= lim {
        SPINS_BROKEN.fetch_add(1, SeqCst);
        SPIN_COUNT.store(0, SeqCst);
        sleep_virtual(100 * 86_400 * 1_000_000_000);
    }
}

/// A sleep of `req_ns` issued by the subject: advance the virtual clock instead of sleeping.
pub fn sleep_virtual(req_ns: i64) {
    if req_ns > 0 {
        SPIN_COUNT.store(0, SeqCst);
    }
    let j = jitter();
    let total = req_ns.saturating_add(j);
    SLEEPS.fetch_add(1, SeqCst);
    SLEPT_NS.fetch_add(req_ns.max(0) as u64, SeqCst);
    TOTAL_JITTER_NS.fetch_add(j as u64, SeqCst);
    let start = now_ns() as i64;
    let end = start.saturating_add(total);
    let at = EXIT_AT.load(SeqCst);
    if at != 0 && at <= end {
        if at > start {
            advance(at - start);
        }
        fire_exit();
        let now = now_ns() as i64;
        if end > now {
            advance(end - now);
        }
    } else {
        advance(total);
    }
    let ja = JUMP_AFTER_SLEEPS.load(SeqCst);
    if ja != 0 && SLEEPS.load(SeqCst) == ja {
        let to = JUMP_TO.load(SeqCst);
        let now = now_ns() as i64;
        if to > now {
            advance(to - now);
        }
    }
}
