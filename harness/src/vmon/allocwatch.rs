// Fork-child allocator watch (C17).  Every Rust heap allocation made by a
// forked child of a subject thread (between fork and exec) is recorded in
// the shared log together with a raw backtrace.

use crate::ilog::{self, k};
use std::alloc::{GlobalAlloc, Layout, System};
use std::sync::atomic::Ordering::SeqCst;

pub struct Watch;

extern "C" {
    fn backtrace(buf: *mut *mut libc::c_void, size: libc::c_int) -> libc::c_int;
}

#[inline]
fn in_watched_child() -> bool {
    ilog::IN_CHILD.load(SeqCst) && ilog::ARMED.load(SeqCst)
}

fn record(kind: u16, size: usize) {
    if let Some(s) = ilog::shared() {
        if kind == k::DEALLOC {
            s.child_deallocs.fetch_add(1, SeqCst);
            return;
        }
        s.child_allocs.fetch_add(1, SeqCst);
        let slot = s.bt_n.fetch_add(1, SeqCst);
        if slot < ilog::BT_SLOTS {
            unsafe {
                let p = (s.bt.get() as *mut [usize; ilog::BT_DEPTH]).add(slot);
                let n = backtrace(p as *mut *mut libc::c_void, ilog::BT_DEPTH as libc::c_int);
                for i in (n.max(0) as usize)..ilog::BT_DEPTH {
                    (*p)[i] = 0;
                }
                *(s.bt_size.get() as *mut usize).add(slot) = size;
            }
        }
        ilog::log(kind, [size as i64, slot as i64, 0, 0], 0, 0, 0);
    }
}

unsafe impl GlobalAlloc for Watch {
    unsafe fn alloc(&self, l: Layout) -> *mut u8 {
        if in_watched_child() {
            record(k::ALLOC, l.size());
        }
        System.alloc(l)
    }
    unsafe fn alloc_zeroed(&self, l: Layout) -> *mut u8 {
        if in_watched_child() {
            record(k::ALLOC, l.size());
        }
        System.alloc_zeroed(l)
    }
    unsafe fn realloc(&self, p: *mut u8, l: Layout, n: usize) -> *mut u8 {
        if in_watched_child() {
            record(k::REALLOC, n);
        }
        System.realloc(p, l, n)
    }
    unsafe fn dealloc(&self, p: *mut u8, l: Layout) {
        if in_watched_child() {
            record(k::DEALLOC, l.size());
        }
        System.dealloc(p, l)
    }
}

/// Call once in the parent so that the unwinder is loaded and backtrace() does not need to initialise in a child.
pub fn warm_up() {
    let mut buf = [std::ptr::null_mut::<libc::c_void>(); 8];
    unsafe {
        backtrace(buf.as_mut_ptr(), 8);
    }
}

/// Load base of the main executable (for symbolisation of raw addresses).
pub fn exe_base() -> usize {
    if let Ok(maps) = std::fs::read_to_string("/proc/self/maps") {
        let exe = std::fs::read_link("/proc/self/exe").map(|p| p.to_string_lossy().into_owned()).unwrap_or_default();
        for l in maps.lines() {
            if l.ends_with(&exe) {
                if let Some(a) = l.split('-').next() {
                    return usize::from_str_radix(a, 16).unwrap_or(0);
                }
            }
        }
    }
    0
}

/// Symbolise the recorded backtraces of child allocations: returns, per allocation, (size, frames).
pub fn symbolised() -> Vec<(usize, Vec<String>)> {
    let s = match ilog::shared() {
        Some(s) => s,
        None => return vec![],
    };
    let n = s.bt_n.load(SeqCst).min(ilog::BT_SLOTS);
    if n == 0 {
        return vec![];
    }
    let base = exe_base();
    let mut out = vec![];
    for i in 0..n {
        let addrs: Vec<usize> = s.bt_slot(i).iter().cloned().take_while(|&a| a != 0).collect();
        let mut frames = vec![];
        let exe = std::fs::read_link("/proc/self/exe").unwrap_or_default();
        let mut cmd = std::process::Command::new("llvm-symbolizer-14");
        cmd.arg(format!("--obj={}", exe.display())).arg("--functions=linkage").arg("--demangle").arg("--inlines").arg("--output-style=GNU");
        for a in &addrs {
            // return addresses: step back one byte to land inside the call instruction
            cmd.arg(format!("0x{:x}", a.wrapping_sub(base).wrapping_sub(1)));
        }
        if let Ok(o) = cmd.output() {
            let txt = String::from_utf8_lossy(&o.stdout);
            for l in txt.lines() {
                let l = l.trim();
                if l.is_empty() || l.starts_with("??") || l.contains(":?") || l.starts_with('/') {
                    continue;
                }
                frames.push(l.to_string());
            }
        }
        if frames.is_empty() {
            frames = addrs.iter().map(|a| format!("0x{:x}", a.wrapping_sub(base))).collect();
        }
        out.push((s.bt_sz(i), frames));
    }
    out
}
