// Shared (MAP_SHARED) event log: visible to the worker and to every forked
// child until it execs.  Everything here is async-signal-safe: no
// allocation, no locks.

use std::cell::{Cell, UnsafeCell};
use std::sync::atomic::{AtomicBool, AtomicI32, AtomicPtr, AtomicU32, AtomicUsize, Ordering::SeqCst};

pub mod k {
    pub const PIPE: u16 = 1;
    pub const PIPE2: u16 = 2;
    pub const FORK: u16 = 3;
    pub const CLOSE: u16 = 4;
    pub const DUP: u16 = 5;
    pub const DUP2: u16 = 6;
    pub const DUP3: u16 = 7;
    pub const FCNTL: u16 = 8;
    pub const READ: u16 = 9;
    pub const WRITE: u16 = 10;
    pub const POLL: u16 = 11;
    pub const PPOLL: u16 = 12;
    pub const WAIT4: u16 = 13;
    pub const WAITID: u16 = 14;
    pub const KILL: u16 = 15;
    pub const EXECVE: u16 = 16;
    pub const EXECV: u16 = 17;
    pub const CHDIR: u16 = 18;
    pub const SETUID: u16 = 19;
    pub const SETGID: u16 = 20;
    pub const SETPGID: u16 = 21;
    pub const SIGMASK: u16 = 22;
    pub const SIGNAL: u16 = 23;
    pub const SIGACTION: u16 = 24;
    pub const NANOSLEEP: u16 = 25;
    pub const OPEN: u16 = 26;
    pub const EXIT: u16 = 27;
    pub const ALLOC: u16 = 28;
    pub const REALLOC: u16 = 29;
    pub const DEALLOC: u16 = 30;
    pub const EXECVP: u16 = 31;
    pub const POSIX_SPAWN: u16 = 32;
    pub const VFORK: u16 = 33;
    pub const KILLPG: u16 = 34;
    pub const CLOSE_RANGE: u16 = 35;
    pub const SETSID: u16 = 36;
    pub const FCHDIR: u16 = 37;
    pub const SETGROUPS: u16 = 38;
    pub const SELECT: u16 = 39;
    pub const TGKILL: u16 = 40;
    pub const SETRES: u16 = 41;
    pub const PANIC: u16 = 42;
    pub const RAWSYS: u16 = 43; // syscall(number, ...) called directly: a[0] = number
    pub const PIDFD_OPEN: u16 = 44;
    pub const PRCTL: u16 = 45;
    pub const MAX: usize = 48;

    pub fn name(k: u16) -> &'static str {
        match k {
            PIPE => "pipe", PIPE2 => "pipe2", FORK => "fork", CLOSE => "close", DUP => "dup", DUP2 => "dup2", DUP3 => "dup3",
            FCNTL => "fcntl", READ => "read", WRITE => "write", POLL => "poll", PPOLL => "ppoll", WAIT4 => "waitpid",
            WAITID => "waitid", KILL => "kill", EXECVE => "execve", EXECV => "execv", CHDIR => "chdir", SETUID => "setuid",
            SETGID => "setgid", SETPGID => "setpgid", SIGMASK => "sigmask", SIGNAL => "signal", SIGACTION => "sigaction",
            NANOSLEEP => "sleep", OPEN => "open", EXIT => "_exit", ALLOC => "alloc", REALLOC => "realloc", DEALLOC => "dealloc",
            EXECVP => "execvp", POSIX_SPAWN => "posix_spawn", VFORK => "vfork", KILLPG => "killpg", CLOSE_RANGE => "close_range",
            SETSID => "setsid", FCHDIR => "fchdir", SETGROUPS => "setgroups", SELECT => "select", TGKILL => "tgkill",
            SETRES => "setres*id", PANIC => "panic", RAWSYS => "syscall", PIDFD_OPEN => "pidfd_open", PRCTL => "prctl", _ => "?",
        }
    }
}

#[repr(C)]
#[derive(Clone, Copy, Debug)]
pub struct Ev {
    pub kind: u16,
    pub child: u8, // 1 = issued by a forked child (between fork and exec)
    pub inj: u8,   // 1 = result was injected by a fault plan, 2 = shortened, 4 = delayed
    pub tid: u32,
    pub a: [i64; 4],
    pub ret: i64,
    pub err: i32,
    pub pid: i32,
    pub vt: u64, // virtual monotonic ns at completion
}

pub const CAP: usize = 1 << 20;
pub const BT_SLOTS: usize = 64;
pub const BT_DEPTH: usize = 40;

#[repr(C)]
pub struct Shared {
    pub next: AtomicUsize,
    pub overflow: AtomicUsize,
    pub child_allocs: AtomicUsize,
    pub child_deallocs: AtomicUsize,
    pub child_exec_attempts: AtomicUsize,
    pub child_panics: AtomicUsize,
    pub child_escapes: AtomicUsize,
    /// forked copies of this process that ran its exit-time handlers (left through exit() instead of _exit())
    pub child_exit_handlers: AtomicUsize,
    /// system calls the library made through syscall() that the monitors do not model (a blind spot, counted)
    pub unmodelled_raw_syscalls: AtomicUsize,
    pub plan_fired: [AtomicU32; 32],
    pub bt_n: AtomicUsize,
    pub bt: UnsafeCell<[[usize; BT_DEPTH]; BT_SLOTS]>,
    pub bt_size: UnsafeCell<[usize; BT_SLOTS]>,
    pub events: UnsafeCell<[Ev; CAP]>,
}

unsafe impl Sync for Shared {}

impl Shared {
    pub fn ev(&self, i: usize) -> Ev {
        unsafe { std::ptr::read_volatile((self.events.get() as *const Ev).add(i)) }
    }
    pub fn bt_slot(&self, i: usize) -> [usize; BT_DEPTH] {
        unsafe { std::ptr::read_volatile((self.bt.get() as *const [usize; BT_DEPTH]).add(i)) }
    }
    pub fn bt_sz(&self, i: usize) -> usize {
        unsafe { std::ptr::read_volatile((self.bt_size.get() as *const usize).add(i)) }
    }
}

static SHARED: AtomicPtr<Shared> = AtomicPtr::new(std::ptr::null_mut());
pub static ARMED: AtomicBool = AtomicBool::new(false);
pub static IN_CHILD: AtomicBool = AtomicBool::new(false);
pub static MAIN_PID: AtomicI32 = AtomicI32::new(0);

thread_local! {
    static SUBJECT: Cell<bool> = const { Cell::new(false) };
}

pub fn init() {
    unsafe {
        let sz = std::mem::size_of::<Shared>();
        let p = libc::mmap(std::ptr::null_mut(), sz, libc::PROT_READ | libc::PROT_WRITE, libc::MAP_SHARED | libc::MAP_ANONYMOUS, -1, 0);
        assert!(p != libc::MAP_FAILED, "mmap of shared log failed");
        SHARED.store(p as *mut Shared, SeqCst);
        MAIN_PID.store(crate::rsys!(libc::SYS_getpid) as i32, SeqCst);
        libc::atexit(at_exit);
    }
}

/// The exit handler of this process blocks when it runs in a forked copy (like a handler that needs a lock which some
/// other thread held at the moment of the fork: that thread does not exist in the copy)
pub static EXIT_HANDLER_BLOCKS: AtomicBool = AtomicBool::new(false);

/// Like many programs, this one has exit-time work registered with atexit().  It belongs to the process that
/// registered it: when it runs anywhere else, a forked copy of this process has left through exit() and is executing
/// the caller's code while it holds a copy of every descriptor of the caller.
extern "C" fn at_exit() {
    let pid = unsafe { crate::rsys!(libc::SYS_getpid) as i32 };
    if pid == MAIN_PID.load(SeqCst) {
        return;
    }
    if let Some(s) = shared() {
        s.child_exit_handlers.fetch_add(1, SeqCst);
    }
    if EXIT_HANDLER_BLOCKS.load(SeqCst) {
        unsafe {
            libc::prctl(libc::PR_SET_NAME, b"vatexit\0".as_ptr());
            loop {
                crate::rsys!(libc::SYS_pause);
            }
        }
    }
    unsafe { crate::rsys!(libc::SYS_exit_group, 103) };
}

/// Number of forked copies that ran the exit handler in this case.
pub fn child_exit_handlers() -> usize {
    shared().map(|s| s.child_exit_handlers.load(SeqCst)).unwrap_or(0)
}

#[inline]
pub fn shared() -> Option<&'static Shared> {
    let p = SHARED.load(SeqCst);
    if p.is_null() { None } else { Some(unsafe { &*p }) }
}

#[inline]
pub fn is_subject() -> bool {
    SUBJECT.with(|s| s.get())
}

#[inline]
pub fn active() -> bool {
    ARMED.load(SeqCst) && is_subject()
}

pub static SUBJECT_TIDS: [AtomicI32; 32] = [const { AtomicI32::new(0) }; 32];

pub fn subject_tids() -> Vec<i32> {
    SUBJECT_TIDS.iter().map(|t| t.load(SeqCst)).filter(|&t| t != 0).collect()
}

pub fn set_subject(on: bool) {
    let was = is_subject();
    SUBJECT.with(|s| s.set(on));
    if on == was {
        return;
    }
    let tid = unsafe { crate::rsys!(libc::SYS_gettid) as i32 };
    if on {
        for t in SUBJECT_TIDS.iter() {
            if t.compare_exchange(0, tid, SeqCst, SeqCst).is_ok() {
                break;
            }
        }
    } else {
        for t in SUBJECT_TIDS.iter() {
            if t.compare_exchange(tid, 0, SeqCst, SeqCst).is_ok() {
                break;
            }
        }
    }
}

/// Run `f` as monitored library-calling code on this thread.
pub fn subject<T>(f: impl FnOnce() -> T) -> T {
    let prev = is_subject();
    set_subject(true);
    let r = f();
    if IN_CHILD.load(SeqCst) {
        // a child forked by the library came back into the caller's code instead of becoming the program or
        // exiting: it must not go on as a second copy of this worker
        if let Some(s) = shared() {
            s.child_escapes.fetch_add(1, SeqCst);
        }
        unsafe { crate::rsys!(libc::SYS_exit_group, 102) };
    }
    set_subject(prev);
    r
}

/// Number of forked children that returned into the caller's code in this case.
pub fn child_escapes() -> usize {
    shared().map(|s| s.child_escapes.load(SeqCst)).unwrap_or(0)
}

/// Run `f` unmonitored (harness' own work) even if the thread is a subject.
pub fn quiet<T>(f: impl FnOnce() -> T) -> T {
    let prev = is_subject();
    set_subject(false);
    let r = f();
    set_subject(prev);
    r
}

pub fn reset() {
    if let Some(s) = shared() {
        s.next.store(0, SeqCst);
        s.overflow.store(0, SeqCst);
        s.child_allocs.store(0, SeqCst);
        s.child_deallocs.store(0, SeqCst);
        s.child_exec_attempts.store(0, SeqCst);
        s.child_panics.store(0, SeqCst);
        s.child_escapes.store(0, SeqCst);
        s.child_exit_handlers.store(0, SeqCst);
        s.unmodelled_raw_syscalls.store(0, SeqCst);
        s.bt_n.store(0, SeqCst);
        for f in s.plan_fired.iter() {
            f.store(0, SeqCst);
        }
    }
}

pub fn arm() {
    ARMED.store(true, SeqCst);
}
pub fn disarm() {
    ARMED.store(false, SeqCst);
}

#[inline]
pub fn log(kind: u16, a: [i64; 4], ret: i64, err: i32, inj: u8) {
    let s = match shared() {
        Some(s) => s,
        None => return,
    };
    let i = s.next.fetch_add(1, SeqCst);
    if i >= CAP {
        s.overflow.fetch_add(1, SeqCst);
        return;
    }
    let child = IN_CHILD.load(SeqCst);
    let ev = Ev {
        kind,
        child: child as u8,
        inj,
        tid: unsafe { crate::rsys!(libc::SYS_gettid) as u32 },
        a,
        ret,
        err,
        pid: if child { unsafe { crate::rsys!(libc::SYS_getpid) as i32 } } else { MAIN_PID.load(SeqCst) },
        vt: crate::vclock::now_ns(),
    };
    unsafe {
        std::ptr::write_volatile((s.events.get() as *mut Ev).add(i), ev);
    }
}

pub fn len() -> usize {
    shared().map(|s| s.next.load(SeqCst).min(CAP)).unwrap_or(0)
}

pub fn overflowed() -> bool {
    shared().map(|s| s.overflow.load(SeqCst) > 0).unwrap_or(false)
}

pub fn snapshot() -> Vec<Ev> {
    match shared() {
        Some(s) => {
            let n = s.next.load(SeqCst).min(CAP);
            (0..n).map(|i| s.ev(i)).collect()
        }
        None => vec![],
    }
}

pub fn snapshot_from(start: usize) -> Vec<Ev> {
    match shared() {
        Some(s) => {
            let n = s.next.load(SeqCst).min(CAP);
            if start >= n { vec![] } else { (start..n).map(|i| s.ev(i)).collect() }
        }
        None => vec![],
    }
}

pub fn fmt_ev(e: &Ev) -> String {
    format!(
        "{}{}({},{},{},{})={}{}{}",
        if e.child != 0 { "child:" } else { "" },
        k::name(e.kind),
        e.a[0], e.a[1], e.a[2], e.a[3],
        e.ret,
        if e.ret < 0 || e.err != 0 { format!(" errno={}", e.err) } else { String::new() },
        if e.inj != 0 { format!(" inj={}", e.inj) } else { String::new() }
    )
}

pub fn fmt_tail(evs: &[Ev], n: usize) -> Vec<String> {
    let s = evs.len().saturating_sub(n);
    evs[s..].iter().map(fmt_ev).collect()
}
