// Exchange engine for C01-C04: runs one communicate-style exchange between the real
// library and a scripted child under observation and returns everything the oracles need.

use crate::common::{fnv_update, pat_vec, FNV_INIT};
use crate::ilog::{self, k, Ev};
use crate::inspect::Certificate;
use crate::kid;
use crate::plan::{self, Rule};
use crate::rng::Rng;
use crate::run::{self, Ctx};
use crate::vclock;
use std::io;
use std::os::unix::io::AsRawFd;
use std::path::PathBuf;
use std::time::Duration;
use subprocess::{Exec, ExitStatus, NullFile, Popen, PopenConfig, Redirection};

#[derive(Clone, Copy, Debug, PartialEq)]
pub enum Entry {
    CommunicateBytes, // Popen::communicate_bytes
    CommunicateStr,   // Popen::communicate (text)
    Start,            // Popen::communicate_start + read chain
    ExecCapture,      // Exec::capture
    ExecCommunicate,  // Exec::communicate + read chain
    ReadString,       // communicate_start + read_string
    PipelineCapture,  // (scripted child | pass-through stage).capture()
    PipelineCommunicate, // (scripted child | pass-through stage).communicate() + read chain
}

#[derive(Clone, Debug)]
pub struct Limit {
    pub size: Option<usize>,
    pub time: Option<Duration>,
}

#[derive(Clone, Debug)]
pub struct Xcfg {
    pub seed: u64,
    pub script: String,
    pub input: Option<Vec<u8>>,
    pub out_piped: bool,
    pub err_piped: bool,
    pub err_merge: bool,
    pub cap: i64, // pipe capacity (0 = default)
    pub entry: Entry,
    pub chain: Vec<Limit>, // limits per successive read (Start / ExecCommunicate); empty = one unlimited read
    pub short_rw: u32,     // per-mille probability of a short read/write
    pub delay_us: i64,     // max random delay around poll/read/write (0 = none)
    pub vclock: Option<(i64, i64)>, // pure virtual clock: (poll cap ms, op cost ns)
    pub max_polls_after_deadline: i32,
    pub ops_budget: i64,
    pub stop_when_done: bool, // chain: stop as soon as a read returns Ok with all-empty data
    pub kill_after: bool,     // kill the child right after the chain instead of giving it time to finish
    pub eintr_permille: u32,  // probability of an injected EINTR on the parent's poll()
    pub route: Route,
}

/// Different ways of saying the same exchange.
#[derive(Clone, Debug, Default)]
pub struct Route {
    /// the command / pipeline / configuration is copied (Exec::clone, Pipeline::clone, PopenConfig::try_clone) and the copy is run
    pub via_clone: bool,
    /// pipelines: the input is attached to `(first | second)` and a third command is appended afterwards
    pub late_stage: bool,
    /// limit_time() is called before limit_size() (instead of after)
    pub time_first: bool,
    /// the chain reads through read_string() (Start entry only)
    pub text_chain: bool,
    /// bit s set: the caller has closed its own standard descriptor s (a daemon); the numbers are free when the exchange starts
    pub free_std: u8,
    /// pipelines: the scripted child is the *last* command (a pass-through command feeds it), not the first
    pub child_last: bool,
    /// Exec entries: a stream that is not captured is left alone (inherited) instead of being sent to /dev/null
    pub leave_uncaptured_alone: bool,
}

#[derive(Clone, Debug)]
pub struct ReadRes {
    pub ok: bool,
    pub err_kind: Option<io::ErrorKind>,
    pub errno: Option<i32>,
    pub out: Option<Vec<u8>>,
    pub err: Option<Vec<u8>>,
    pub out_str: Option<String>,
    pub err_str: Option<String>,
    pub ev_start: usize,
    pub ev_end: usize,
    pub t0: u64,
    pub t1: u64,
    pub limit: Limit,
    pub polls_after_deadline: u32,
}

pub struct Xres {
    pub reads: Vec<ReadRes>,
    pub cert: Option<Certificate>,
    pub panic: Option<String>,
    pub hard_timeout: bool,
    pub budget_hit: bool,
    pub events: Vec<Ev>,
    pub report: Vec<String>,
    pub launch_error: Option<String>,
    pub fds: (i32, i32, i32), // parent-side fds of stdin, stdout, stderr pipes (-1 if none)
    pub exit: Option<ExitStatus>,
    pub overflow: bool,
    pub short_fired: u32,
    /// (pid, state) of every process forked by the exchange, sampled at the moment the communicate call(s) returned
    pub at_return: Vec<(i32, Option<char>)>,
}

impl Xres {
    /// (in_len, in_hash, eof_seen) from the child's last `in` line
    pub fn child_in(&self) -> Option<(u64, u64, bool)> {
        self.report.iter().rev().find(|l| l.starts_with("in ")).map(|l| {
            let p: Vec<&str> = l.split(' ').collect();
            (p[1].parse().unwrap_or(0), p[2].parse().unwrap_or(0), p[3] == "1")
        })
    }
    /// bytes the child reports to have written to stream s
    pub fn child_wrote(&self, s: u8) -> u64 {
        let mut n = 0;
        for l in &self.report {
            let p: Vec<&str> = l.split(' ').collect();
            if (p[0] == "w" && p.len() >= 3 && p[1] == s.to_string()) || (p[0] == "W" && s == 1 && p.len() >= 2) {
                let v: u64 = if p[0] == "w" { p[2].parse().unwrap_or(0) } else { p[1].parse().unwrap_or(0) };
                n = n.max(v);
            }
        }
        n
    }
    pub fn child_done(&self) -> bool {
        self.report.iter().any(|l| l == "done" || l.starts_with("exit ") || l.starts_with("kill "))
    }
    pub fn w_gave_up(&self) -> Option<bool> {
        self.report.iter().find(|l| l.starts_with("W ")).map(|l| l.split(' ').nth(2) == Some("1"))
    }
    pub fn cat_out(&self) -> Vec<u8> {
        self.reads.iter().flat_map(|r| r.out.clone().unwrap_or_default()).collect()
    }
    pub fn cat_err(&self) -> Vec<u8> {
        self.reads.iter().flat_map(|r| r.err.clone().unwrap_or_default()).collect()
    }
}

fn conv(r: Result<(Option<Vec<u8>>, Option<Vec<u8>>), subprocess::CommunicateError>, lim: &Limit, s: usize, e: usize, t0: u64, t1: u64) -> ReadRes {
    match r {
        Ok((o, er)) => ReadRes { ok: true, err_kind: None, errno: None, out: o, err: er, out_str: None, err_str: None, ev_start: s, ev_end: e, t0, t1, limit: lim.clone(), polls_after_deadline: 0 },
        Err(ce) => ReadRes {
            ok: false,
            err_kind: Some(ce.error.kind()),
            errno: ce.error.raw_os_error(),
            out: ce.capture.0,
            err: ce.capture.1,
            out_str: None,
            err_str: None,
            ev_start: s,
            ev_end: e,
            t0,
            t1,
            limit: lim.clone(),
            polls_after_deadline: 0,
        },
    }
}

fn io_conv(r: io::Result<(Option<Vec<u8>>, Option<Vec<u8>>)>, lim: &Limit, s: usize, e: usize, t0: u64, t1: u64) -> ReadRes {
    match r {
        Ok((o, er)) => ReadRes { ok: true, err_kind: None, errno: None, out: o, err: er, out_str: None, err_str: None, ev_start: s, ev_end: e, t0, t1, limit: lim.clone(), polls_after_deadline: 0 },
        Err(ioe) => ReadRes { ok: false, err_kind: Some(ioe.kind()), errno: ioe.raw_os_error(), out: None, err: None, out_str: None, err_str: None, ev_start: s, ev_end: e, t0, t1, limit: lim.clone(), polls_after_deadline: 0 },
    }
}

pub fn exchange(ctx: &mut Ctx, cfg: &Xcfg) -> Xres {
    run::begin_case();
    let dir = ctx.scratch("x");
    let rep: PathBuf = dir.join("rep");
    let mut res = Xres {
        reads: vec![], cert: None, panic: None, hard_timeout: false, budget_hit: false, events: vec![], report: vec![], launch_error: None,
        fds: (-1, -1, -1), exit: None, overflow: false, short_fired: 0, at_return: vec![],
    };
    plan::seed(cfg.seed ^ 0x5555);
    let mut short_rules = vec![];
    if cfg.cap > 0 {
        plan::add(Rule { kind: k::PIPE, scope: plan::SCOPE_PARENT, nth: 0, fd: -1, act: plan::ACT_PIPE_SZ, val: cfg.cap, prob: 1000 });
    }
    let argv: Vec<std::ffi::OsString> = vec![ctx.vchild.clone().into(), "io".into(), cfg.seed.to_string().into(), cfg.script.clone().into(), rep.clone().into()];
    let none = Limit { size: None, time: None };
    let chain: Vec<Limit> = if cfg.chain.is_empty() { vec![none.clone()] } else { cfg.chain.clone() };
    let arm_io_rules = |short_rules: &mut Vec<usize>| {
        if cfg.short_rw > 0 {
            short_rules.push(plan::add(Rule { kind: k::READ, scope: plan::SCOPE_PARENT, nth: 0, fd: -1, act: plan::ACT_SHORT, val: 0, prob: cfg.short_rw }));
            short_rules.push(plan::add(Rule { kind: k::WRITE, scope: plan::SCOPE_PARENT, nth: 0, fd: -1, act: plan::ACT_SHORT, val: 0, prob: cfg.short_rw }));
        }
        if cfg.delay_us > 0 {
            for kind in [k::POLL, k::READ, k::WRITE] {
                plan::add(Rule { kind, scope: plan::SCOPE_PARENT, nth: 0, fd: -1, act: plan::ACT_DELAY_BEFORE, val: -cfg.delay_us, prob: 250 });
            }
        }
        if cfg.eintr_permille > 0 {
            plan::add(Rule { kind: k::POLL, scope: plan::SCOPE_PARENT, nth: 0, fd: -1, act: plan::ACT_FAIL, val: libc::EINTR as i64, prob: cfg.eintr_permille });
            // (a handler without SA_RESTART interrupts read() and write() just as well; less often, they are many)
            plan::add(Rule { kind: k::READ, scope: plan::SCOPE_PARENT, nth: 0, fd: -1, act: plan::ACT_FAIL, val: libc::EINTR as i64, prob: (cfg.eintr_permille / 8).max(1) });
            plan::add(Rule { kind: k::WRITE, scope: plan::SCOPE_PARENT, nth: 0, fd: -1, act: plan::ACT_FAIL, val: libc::EINTR as i64, prob: (cfg.eintr_permille / 8).max(1) });
        }
        if cfg.ops_budget > 0 {
            plan::OPS_BUDGET.store(cfg.ops_budget, std::sync::atomic::Ordering::SeqCst);
        }
    };
    let holes: Option<crate::spawn::StdHoles>;
    match cfg.entry {
        Entry::PipelineCapture | Entry::PipelineCommunicate => {
            // stage 1 copies its input verbatim (a=1, b=0) and appends the trailer [1:len:hash]
            let e0 = Exec::cmd(&argv[0]).args(&argv[1..]);
            let e1 = Exec::cmd(&argv[0]).args(&["stage", "1", "1", "0", "0", "0", "0"]).arg(dir.join("stage1.rep"));
            let mut pl = if cfg.route.child_last {
                // pass-through first (it appends [0:len:hash] to what it copies), the scripted child last
                Exec::cmd(&argv[0]).args(&["stage", "0", "1", "0", "0", "0", "0"]).arg(dir.join("stage0.rep")) | e0
            } else {
                e0 | e1
            };
            if let Some(i) = &cfg.input {
                pl = pl.stdin(i.clone());
            }
            if cfg.route.late_stage {
                // a third pass-through command joins a pipeline that already has its input attached
                pl = pl | Exec::cmd(&argv[0]).args(&["stage", "2", "1", "0", "0", "0", "0"]).arg(dir.join("stage2.rep"));
            }
            if cfg.route.via_clone {
                pl = pl.clone();
            }
            holes = if cfg.route.free_std != 0 { Some(crate::spawn::StdHoles::make(cfg.route.free_std)) } else { None };
            arm_io_rules(&mut short_rules);
            if cfg.entry == Entry::PipelineCapture {
                let m = run::monitored(|| pl.capture());
                res.cert = m.cert.clone();
                res.panic = m.panic.clone();
                res.hard_timeout = m.hard_timeout;
                match m.result {
                    Some(Ok(c)) => {
                        res.exit = Some(c.exit_status);
                        res.reads.push(ReadRes { ok: true, err_kind: None, errno: None, out: Some(c.stdout.clone()), err: Some(c.stderr.clone()), out_str: None, err_str: None, ev_start: m.ev_start, ev_end: m.ev_end, t0: m.t0_vt, t1: m.t1_vt, limit: none.clone(), polls_after_deadline: 0 });
                    }
                    Some(Err(e)) => {
                        let (kind, errno) = match &e {
                            subprocess::PopenError::IoError(io) => (Some(io.kind()), io.raw_os_error()),
                            _ => (None, None),
                        };
                        res.reads.push(ReadRes { ok: false, err_kind: kind, errno, out: None, err: None, out_str: None, err_str: None, ev_start: m.ev_start, ev_end: m.ev_end, t0: m.t0_vt, t1: m.t1_vt, limit: none.clone(), polls_after_deadline: 0 });
                    }
                    None => {}
                }
            } else {
                let m0 = run::monitored(|| pl.communicate());
                match m0.result {
                    Some(Ok(mut comm)) => {
                        for lim in &chain {
                            comm = set_limits(comm, lim, cfg.route.time_first);
                            let stop = run_read(&mut res, cfg, lim, |_| {}, &mut || comm.read());
                            if stop {
                                break;
                            }
                        }
                        mark_at_return(&mut res);
                        drop(comm);
                    }
                    Some(Err(e)) => res.launch_error = Some(e.to_string()),
                    None => res.panic = m0.panic,
                }
            }
        }
        Entry::ExecCapture | Entry::ExecCommunicate => {
            let mut e = Exec::cmd(&argv[0]).args(&argv[1..]);
            if let Some(i) = &cfg.input {
                e = e.stdin(i.clone());
            }
            // (left alone only when the other output is configured: with nothing configured capture() pipes stdout itself)
            // and only when the caller has the standard descriptors: an inherited closed descriptor makes the script's writes fail
            let alone = cfg.route.leave_uncaptured_alone && (cfg.out_piped != cfg.err_piped) && !cfg.err_merge && cfg.route.free_std == 0;
            e = if cfg.out_piped { e.stdout(Redirection::Pipe) } else if alone { e } else { e.stdout(NullFile) };
            e = if cfg.err_merge { e.stderr(Redirection::Merge) } else if cfg.err_piped { e.stderr(Redirection::Pipe) } else if alone { e } else { e.stderr(NullFile) };
            if cfg.route.via_clone {
                e = e.clone();
            }
            holes = if cfg.route.free_std != 0 { Some(crate::spawn::StdHoles::make(cfg.route.free_std)) } else { None };
            arm_io_rules(&mut short_rules);
            if let Some((cap, cost)) = cfg.vclock {
                vclock::enable_pure(cap, 0, cfg.seed, 1000, cost);
            }
            if cfg.entry == Entry::ExecCapture {
                let m = run::monitored(|| e.capture());
                res.cert = m.cert.clone();
                res.panic = m.panic.clone();
                res.hard_timeout = m.hard_timeout;
                match m.result {
                    Some(Ok(c)) => {
                        res.exit = Some(c.exit_status);
                        res.reads.push(ReadRes {
                            ok: true, err_kind: None, errno: None,
                            out: if cfg.out_piped { Some(c.stdout.clone()) } else { None },
                            err: if cfg.err_piped && !cfg.err_merge { Some(c.stderr.clone()) } else { None },
                            out_str: Some(c.stdout_str()), err_str: Some(c.stderr_str()),
                            ev_start: m.ev_start, ev_end: m.ev_end, t0: m.t0_vt, t1: m.t1_vt, limit: none.clone(), polls_after_deadline: 0,
                        });
                        // CaptureData has no notion of "absent": remember the raw vectors for the absent-stream check
                        if !cfg.out_piped && !c.stdout.is_empty() {
                            res.reads.last_mut().unwrap().out = Some(c.stdout.clone());
                        }
                    }
                    Some(Err(e)) => {
                        let (kind, errno) = match &e {
                            subprocess::PopenError::IoError(io) => (Some(io.kind()), io.raw_os_error()),
                            _ => (None, None),
                        };
                        res.reads.push(ReadRes { ok: false, err_kind: kind, errno, out: None, err: None, out_str: None, err_str: None, ev_start: m.ev_start, ev_end: m.ev_end, t0: m.t0_vt, t1: m.t1_vt, limit: none.clone(), polls_after_deadline: 0 });
                    }
                    None => {}
                }
            } else {
                let m0 = run::monitored(|| e.communicate());
                match m0.result {
                    Some(Ok(mut comm)) => {
                        for lim in &chain {
                            comm = set_limits(comm, lim, cfg.route.time_first);
                            let stop = run_read(&mut res, cfg, lim, |_| {}, &mut || comm.read());
                            if stop {
                                break;
                            }
                        }
                        mark_at_return(&mut res);
                        drop(comm);
                    }
                    Some(Err(e)) => res.launch_error = Some(e.to_string()),
                    None => res.panic = m0.panic,
                }
            }
        }
        _ => {
            let config = PopenConfig {
                stdin: if cfg.input.is_some() { Redirection::Pipe } else { Redirection::None },
                stdout: if cfg.out_piped { Redirection::Pipe } else { Redirection::File(std::fs::OpenOptions::new().write(true).open("/dev/null").unwrap()) },
                stderr: if cfg.err_merge { Redirection::Merge } else if cfg.err_piped { Redirection::Pipe } else { Redirection::File(std::fs::OpenOptions::new().write(true).open("/dev/null").unwrap()) },
                ..Default::default()
            };
            let config = if cfg.route.via_clone { config.try_clone().expect("try_clone") } else { config };
            holes = if cfg.route.free_std != 0 { Some(crate::spawn::StdHoles::make(cfg.route.free_std)) } else { None };
            let m0 = run::monitored(|| Popen::create(&argv, config));
            match m0.result {
                Some(Ok(mut p)) => {
                    res.fds = (
                        p.stdin.as_ref().map(|f| f.as_raw_fd()).unwrap_or(-1),
                        p.stdout.as_ref().map(|f| f.as_raw_fd()).unwrap_or(-1),
                        p.stderr.as_ref().map(|f| f.as_raw_fd()).unwrap_or(-1),
                    );
                    arm_io_rules(&mut short_rules);
                    if let Some((cap, cost)) = cfg.vclock {
                        vclock::enable_pure(cap, 0, cfg.seed, 1000, cost);
                    }
                    match cfg.entry {
                        Entry::CommunicateBytes => {
                            let inp = cfg.input.clone();
                            let m = run::monitored(|| p.communicate_bytes(inp.as_deref()));
                            absorb(&mut res, &m);
                            if let Some(r) = m.result {
                                res.reads.push(io_conv(r, &none, m.ev_start, m.ev_end, m.t0_vt, m.t1_vt));
                            }
                        }
                        Entry::CommunicateStr => {
                            // the text variant takes &str: the input must be valid UTF-8 (the generator guarantees it for this entry)
                            let inp = cfg.input.clone().map(|b| String::from_utf8(b).unwrap_or_default());
                            let m = run::monitored(|| p.communicate(inp.as_deref()));
                            absorb(&mut res, &m);
                            if let Some(r) = m.result {
                                match r {
                                    Ok((o, e)) => res.reads.push(ReadRes { ok: true, err_kind: None, errno: None, out: None, err: None, out_str: o, err_str: e, ev_start: m.ev_start, ev_end: m.ev_end, t0: m.t0_vt, t1: m.t1_vt, limit: none.clone(), polls_after_deadline: 0 }),
                                    Err(ioe) => res.reads.push(ReadRes { ok: false, err_kind: Some(ioe.kind()), errno: ioe.raw_os_error(), out: None, err: None, out_str: None, err_str: None, ev_start: m.ev_start, ev_end: m.ev_end, t0: m.t0_vt, t1: m.t1_vt, limit: none.clone(), polls_after_deadline: 0 }),
                                }
                            }
                        }
                        Entry::ReadString => {
                            let mut comm = p.communicate_start(cfg.input.clone());
                            let m = run::monitored(|| comm.read_string());
                            absorb(&mut res, &m);
                            if let Some(r) = m.result {
                                match r {
                                    Ok((o, e)) => res.reads.push(ReadRes { ok: true, err_kind: None, errno: None, out: None, err: None, out_str: o, err_str: e, ev_start: m.ev_start, ev_end: m.ev_end, t0: m.t0_vt, t1: m.t1_vt, limit: none.clone(), polls_after_deadline: 0 }),
                                    Err(ce) => res.reads.push(ReadRes { ok: false, err_kind: Some(ce.error.kind()), errno: ce.error.raw_os_error(), out: ce.capture.0, err: ce.capture.1, out_str: None, err_str: None, ev_start: m.ev_start, ev_end: m.ev_end, t0: m.t0_vt, t1: m.t1_vt, limit: none.clone(), polls_after_deadline: 0 }),
                                }
                            }
                            drop(comm);
                        }
                        _ => {
                            let mut comm = p.communicate_start(cfg.input.clone());
                            for lim in &chain {
                                comm = set_limits(comm, lim, cfg.route.time_first);
                                let stop = if cfg.route.text_chain {
                                    // strings travel as their bytes and are marked as text afterwards
                                    let stop = run_read(&mut res, cfg, lim, |_| {}, &mut || comm.read_string().map(|(o, e)| (o.map(String::into_bytes), e.map(String::into_bytes))));
                                    if let Some(rr) = res.reads.last_mut() {
                                        if rr.ok {
                                            rr.out_str = rr.out.take().map(|b| String::from_utf8(b).unwrap_or_default());
                                            rr.err_str = rr.err.take().map(|b| String::from_utf8(b).unwrap_or_default());
                                        }
                                    }
                                    stop
                                } else {
                                    run_read(&mut res, cfg, lim, |_| {}, &mut || comm.read())
                                };
                                if stop {
                                    break;
                                }
                            }
                            drop(comm);
                        }
                    }
                    mark_at_return(&mut res);
                    vclock::disable();
                    plan::OPS_BUDGET.store(-1, std::sync::atomic::Ordering::SeqCst);
                    // release whatever the library did not consume, then learn the exit status without risking a hang
                    drop(p.stdin.take());
                    drop(p.stdout.take());
                    drop(p.stderr.take());
                    let pid = p.pid().map(|x| x as i32);
                    if res.cert.is_some() || res.hard_timeout || res.budget_hit || cfg.kill_after {
                        if let Some(pid) = pid {
                            crate::spawn::kill_now(pid);
                        }
                    }
                    let st = ilog::quiet(|| {
                        // the child may legitimately still be busy (e.g. only its stdin was piped and its output goes to
                        // /dev/null): let it finish its script, so that its report is complete; the bound is generous and
                        // a child killed at the bound is reported as "not done" (its input is then not judged)
                        for _ in 0..if cfg.kill_after { 1 } else { 30_000 } {
                            if let Some(s) = p.poll() {
                                return Some(s);
                            }
                            std::thread::sleep(Duration::from_millis(1));
                        }
                        if let Some(pid) = pid {
                            crate::spawn::kill_now(pid);
                        }
                        p.wait().ok()
                    });
                    res.exit = st;
                }
                Some(Err(e)) => res.launch_error = Some(e.to_string()),
                None => res.panic = m0.panic,
            }
        }
    }
    vclock::disable();
    drop(holes);
    res.budget_hit = plan::BUDGET_HIT.load(std::sync::atomic::Ordering::SeqCst) > 0;
    res.short_fired = short_rules.iter().map(|&i| plan::fired(i)).sum();
    res.overflow = ilog::overflowed();
    res.events = ilog::snapshot();
    // let the child finish its report
    for _ in 0..200 {
        res.report = kid::read_lines(&rep);
        if res.child_done() {
            break;
        }
        if crate::inspect::children_of(crate::inspect::self_pid()).is_empty() {
            res.report = kid::read_lines(&rep);
            break;
        }
        std::thread::sleep(Duration::from_millis(1));
    }
    run::end_case();
    res
}

fn set_limits(mut comm: subprocess::Communicator, lim: &Limit, time_first: bool) -> subprocess::Communicator {
    if time_first {
        if let Some(t) = lim.time {
            comm = comm.limit_time(t);
        }
    }
    if let Some(s) = lim.size {
        comm = comm.limit_size(s);
    }
    if !time_first {
        if let Some(t) = lim.time {
            comm = comm.limit_time(t);
        }
    }
    comm
}

fn mark_at_return(res: &mut Xres) {
    if !res.at_return.is_empty() {
        return;
    }
    let evs = ilog::snapshot();
    for pid in crate::spawn::forked_pids(&evs) {
        res.at_return.push((pid, crate::inspect::proc_state(pid)));
    }
}

fn absorb<T>(res: &mut Xres, m: &run::Monitored<T>) {
    if res.cert.is_none() {
        res.cert = m.cert.clone();
    }
    if res.panic.is_none() {
        res.panic = m.panic.clone();
    }
    res.hard_timeout |= m.hard_timeout;
}

/// One Communicator::read() of a chain; returns true if the chain should stop.
fn run_read(
    res: &mut Xres,
    cfg: &Xcfg,
    lim: &Limit,
    _pre: impl Fn(&Limit),
    read: &mut dyn FnMut() -> Result<(Option<Vec<u8>>, Option<Vec<u8>>), subprocess::CommunicateError>,
) -> bool {
    use std::sync::atomic::Ordering::SeqCst;
    plan::POLLS_AFTER_DEADLINE.store(0, SeqCst);
    if let Some(t) = lim.time {
        let now = vclock::now_ns() as i64;
        plan::DEADLINE_VT.store(now.saturating_add(t.as_nanos().min(i64::MAX as u128 / 2) as i64), SeqCst);
        plan::MAX_POLLS_AFTER_DEADLINE.store(cfg.max_polls_after_deadline, SeqCst);
    } else {
        plan::DEADLINE_VT.store(0, SeqCst);
    }
    let m = run::monitored(|| read());
    let pad = plan::POLLS_AFTER_DEADLINE.load(SeqCst);
    plan::DEADLINE_VT.store(0, SeqCst);
    absorb(res, &m);
    let mut stop = m.cert.is_some() || m.panic.is_some() || m.hard_timeout || plan::BUDGET_HIT.load(SeqCst) > 0;
    if let Some(r) = m.result {
        let mut rr = conv(r, lim, m.ev_start, m.ev_end, m.t0_vt, m.t1_vt);
        rr.polls_after_deadline = pad;
        let empty = rr.out.as_ref().map(|v| v.is_empty()).unwrap_or(true) && rr.err.as_ref().map(|v| v.is_empty()).unwrap_or(true);
        if rr.ok && empty && cfg.stop_when_done {
            stop = true;
        }
        if !rr.ok && rr.err_kind != Some(io::ErrorKind::TimedOut) && !(rr.err_kind == Some(io::ErrorKind::Interrupted) && cfg.eintr_permille > 0) {
            stop = true;
        }
        res.reads.push(rr);
    }
    stop
}

// ------------------------------------------------------------------ script generation

#[derive(Clone, Debug, Default)]
pub struct ScriptInfo {
    pub script: String,
    pub out1: u64,         // bytes written to stdout if the script runs to completion (excluding E/W ops)
    pub out2: u64,
    pub reads_all: bool,   // consumes stdin to EOF at some point
    pub closes_stdin_early: bool,
    pub echo_k: u64,       // E op factor (0 = none)
    pub family: &'static str,
    pub max_total: u64,    // upper bound on bytes moved in any direction (for the op budget)
}

pub fn chunk(rng: &mut Rng) -> u64 {
    *rng.pick(&[1u64, 7, 100, 512, 4095, 4096, 4097, 8192, 65536, 65537, 1 << 20])
}

pub fn size_near(rng: &mut Rng, cap: u64) -> u64 {
    match rng.below(10) {
        0 => 0,
        1 => 1,
        2 => 4095,
        3 => 4096,
        4 => 4097,
        5 => cap.saturating_sub(1),
        6 => cap,
        7 => cap + 1,
        8 => 2 * cap + 17,
        _ => rng.range(1, 3 * cap.max(4096)),
    }
}

/// Random child behaviour.  `piped_in`: whether the child has an input pipe to read.
pub fn gen_script(rng: &mut Rng, piped_in: bool, cap: u64, input_len: u64, big: bool) -> ScriptInfo {
    let mut si = ScriptInfo::default();
    let fam = rng.below(if piped_in { 9 } else { 4 });
    let big_n = |rng: &mut Rng| if big { rng.range(cap + 1, 8 * cap.max(65536)) } else { size_near(rng, cap) };
    let mut ops: Vec<String> = vec![];
    let mut w = |ops: &mut Vec<String>, si: &mut ScriptInfo, s: u8, n: u64, c: u64| {
        ops.push(format!("w{}:{}:{}", s, n, c));
        if s == 1 { si.out1 += n } else { si.out2 += n }
    };
    match fam {
        0 => {
            si.family = "writes-then-exit";
            let (n1, n2) = (big_n(rng), big_n(rng));
            let (c1, c2) = (chunk(rng), chunk(rng));
            if rng.chance(500) { w(&mut ops, &mut si, 1, n1, c1); w(&mut ops, &mut si, 2, n2, c2); } else { w(&mut ops, &mut si, 2, n2, c2); w(&mut ops, &mut si, 1, n1, c1); }
            if piped_in { ops.push("R".into()); si.reads_all = true; }
        }
        1 => {
            si.family = "interleaved-writes";
            for _ in 0..rng.range(2, 12) {
                let s = if rng.chance(500) { 1 } else { 2 };
                let n = if rng.chance(300) { big_n(rng) } else { rng.range(0, 5000) };
                let c = chunk(rng);
                w(&mut ops, &mut si, s, n, c);
                if rng.chance(150) { ops.push(format!("s{}", rng.range(1, 4))); }
            }
            if piped_in { ops.push("R".into()); si.reads_all = true; }
        }
        2 => {
            si.family = "closes-streams-in-odd-order";
            let (n1, n2) = (big_n(rng), size_near(rng, cap));
            let (c1, c2) = (chunk(rng), chunk(rng));
            w(&mut ops, &mut si, 2, n2, c2);
            ops.push("c2".into());
            w(&mut ops, &mut si, 1, n1, c1);
            ops.push("c1".into());
            if piped_in { ops.push("R".into()); si.reads_all = true; }
            ops.push(format!("s{}", rng.range(0, 5)));
        }
        3 => {
            si.family = "descendant-holds-streams";
            ops.push(format!("F{}", rng.range(5, 40)));
            let n = rng.range(0, 3000);
            w(&mut ops, &mut si, 1, n, 512);
            if piped_in { ops.push("R".into()); si.reads_all = true; }
        }
        4 => {
            si.family = "echo-filter";
            let kk = rng.range(1, 4);
            si.echo_k = kk;
            si.reads_all = true;
            ops.push(format!("E{}:{}", chunk(rng).min(1 << 16), kk));
            if rng.chance(400) {
                let n = size_near(rng, cap);
                let c = chunk(rng);
                w(&mut ops, &mut si, 2, n, c);
            }
        }
        5 => {
            si.family = "stderr-flood-before-reading";
            let n2 = rng.range(2 * cap, 4 * cap.max(65536));
            let c = chunk(rng);
            w(&mut ops, &mut si, 2, n2, c);
            ops.push("R".into());
            si.reads_all = true;
            let n1 = size_near(rng, cap);
            w(&mut ops, &mut si, 1, n1, 4096);
        }
        6 => {
            si.family = "partial-reads-interleaved";
            let mut left = input_len;
            for _ in 0..rng.range(1, 10) {
                let r = chunk(rng).min(1 << 16);
                ops.push(format!("r{}", r));
                left = left.saturating_sub(r);
                let s = if rng.chance(500) { 1 } else { 2 };
                let n = rng.range(0, 2 * cap);
                let c = chunk(rng);
                w(&mut ops, &mut si, s, n, c);
            }
            let _ = left;
            ops.push("R".into());
            si.reads_all = true;
        }
        7 => {
            si.family = "closes-stdin-early-then-writes";
            si.closes_stdin_early = true;
            if rng.chance(500) { ops.push(format!("r{}", chunk(rng).min(1 << 16))); }
            if rng.chance(500) { ops.push(format!("s{}", rng.range(1, 15))); }
            ops.push("c0".into());
            let n = big_n(rng);
            let c = chunk(rng);
            w(&mut ops, &mut si, 1, n, c);
        }
        _ => {
            si.family = "writes-until-eof-seen";
            si.reads_all = true;
            ops.push(format!("W{}", 64 << 20));
        }
    }
    ops.push(format!("x{}", rng.below(4)));
    si.script = ops.join(",");
    si.max_total = si.out1 + si.out2 + input_len * (1 + si.echo_k) + if si.family == "writes-until-eof-seen" { 64 << 20 } else { 0 };
    si
}

pub fn input_for(seed: u64, len: usize) -> Vec<u8> {
    pat_vec(seed, 0, 0, len)
}

pub fn hash(data: &[u8]) -> u64 {
    fnv_update(FNV_INIT, data)
}

/// Spin oracle (C01): within one read call every round moves >= 1 byte, retires a stream or errors.
/// Returns Some(description) if the bound is exceeded or a stream at EOF is read again.
pub fn spin_check(evs: &[Ev]) -> Option<String> {
    let mut ops = 0u64;
    let mut bytes = 0u64;
    let mut eofs: std::collections::BTreeMap<i64, u32> = std::collections::BTreeMap::new();
    for e in evs {
        if e.child != 0 {
            continue;
        }
        match e.kind {
            k::POLL => ops += 1,
            // a descriptor number that is closed and handed out again is a new stream
            k::CLOSE => {
                eofs.remove(&e.a[0]);
            }
            k::READ | k::WRITE => {
                ops += 1;
                if e.ret > 0 {
                    bytes += e.ret as u64;
                }
                if e.kind == k::READ && e.ret == 0 {
                    *eofs.entry(e.a[0]).or_insert(0) += 1;
                }
            }
            _ => {}
        }
    }
    if let Some((fd, n)) = eofs.iter().find(|(_, &n)| n > 1) {
        return Some(format!("fd {} was read {} times after it had reached end-of-file", fd, n));
    }
    if ops > 4 * (bytes + 3) + 8 {
        return Some(format!("{} poll/read/write calls moved only {} bytes", ops, bytes));
    }
    None
}
