// Link-time interposition of the libc entry points used by the crate
// under test (and by the parts of std it uses).  Defined in the binary
// itself, so every reference from libsubprocess.rlib and libstd resolves
// here.  The real function is reached through dlsym(RTLD_NEXT).
//
// Everything in here may run in a forked child: no allocation, no locks.
#![allow(clippy::missing_safety_doc)]

use crate::ilog::{self, k, log};
use crate::plan;
use crate::vclock;
use libc::{c_char, c_int, c_void, pid_t, size_t, ssize_t};
use std::sync::atomic::{AtomicUsize, Ordering::Relaxed};

#[inline]
unsafe fn errno() -> i32 {
    *libc::__errno_location()
}
#[inline]
unsafe fn set_errno(e: i32) {
    *libc::__errno_location() = e;
}
#[inline]
fn err_of(r: i64) -> i32 {
    if r < 0 { unsafe { errno() } } else { 0 }
}

unsafe fn resolve(cache: &AtomicUsize, name: &'static [u8]) -> usize {
    let mut p = cache.load(Relaxed);
    if p == 0 {
        p = libc::dlsym(libc::RTLD_NEXT, name.as_ptr() as *const c_char) as usize;
        cache.store(p, Relaxed);
    }
    p
}

macro_rules! def_real {
    ($getter:ident, $sym:expr, fn($($t:ty),*) -> $r:ty) => {
        #[inline]
        unsafe fn $getter() -> unsafe extern "C" fn($($t),*) -> $r {
            static P: AtomicUsize = AtomicUsize::new(0);
            let p = resolve(&P, concat!($sym, "\0").as_bytes());
            if p == 0 {
                libc::abort();
            }
            std::mem::transmute::<usize, unsafe extern "C" fn($($t),*) -> $r>(p)
        }
    };
}

def_real!(r_pipe, "pipe", fn(*mut c_int) -> c_int);
def_real!(r_pipe2, "pipe2", fn(*mut c_int, c_int) -> c_int);
def_real!(r_fork, "fork", fn() -> pid_t);
def_real!(r_close, "close", fn(c_int) -> c_int);
def_real!(r_dup, "dup", fn(c_int) -> c_int);
def_real!(r_dup2, "dup2", fn(c_int, c_int) -> c_int);
def_real!(r_dup3, "dup3", fn(c_int, c_int, c_int) -> c_int);
def_real!(r_fcntl, "fcntl", fn(c_int, c_int, usize) -> c_int);
def_real!(r_read, "read", fn(c_int, *mut c_void, size_t) -> ssize_t);
def_real!(r_write, "write", fn(c_int, *const c_void, size_t) -> ssize_t);
def_real!(r_poll, "poll", fn(*mut libc::pollfd, libc::nfds_t, c_int) -> c_int);
def_real!(r_ppoll, "ppoll", fn(*mut libc::pollfd, libc::nfds_t, *const libc::timespec, *const libc::sigset_t) -> c_int);
def_real!(r_waitpid, "waitpid", fn(pid_t, *mut c_int, c_int) -> pid_t);
def_real!(r_wait4, "wait4", fn(pid_t, *mut c_int, c_int, *mut libc::rusage) -> pid_t);
def_real!(r_waitid, "waitid", fn(libc::idtype_t, libc::id_t, *mut libc::siginfo_t, c_int) -> c_int);
def_real!(r_kill, "kill", fn(pid_t, c_int) -> c_int);
def_real!(r_killpg, "killpg", fn(pid_t, c_int) -> c_int);
def_real!(r_prctl, "prctl", fn(c_int, usize, usize, usize, usize) -> c_int);
def_real!(r_execve, "execve", fn(*const c_char, *const *const c_char, *const *const c_char) -> c_int);
def_real!(r_execv, "execv", fn(*const c_char, *const *const c_char) -> c_int);
def_real!(r_execvp, "execvp", fn(*const c_char, *const *const c_char) -> c_int);
def_real!(r_execvpe, "execvpe", fn(*const c_char, *const *const c_char, *const *const c_char) -> c_int);
def_real!(r_fexecve, "fexecve", fn(c_int, *const *const c_char, *const *const c_char) -> c_int);
def_real!(r_chdir, "chdir", fn(*const c_char) -> c_int);
def_real!(r_fchdir, "fchdir", fn(c_int) -> c_int);
def_real!(r_setuid, "setuid", fn(libc::uid_t) -> c_int);
def_real!(r_setgid, "setgid", fn(libc::gid_t) -> c_int);
def_real!(r_setpgid, "setpgid", fn(pid_t, pid_t) -> c_int);
def_real!(r_setsid, "setsid", fn() -> pid_t);
def_real!(r_pthread_sigmask, "pthread_sigmask", fn(c_int, *const libc::sigset_t, *mut libc::sigset_t) -> c_int);
def_real!(r_sigprocmask, "sigprocmask", fn(c_int, *const libc::sigset_t, *mut libc::sigset_t) -> c_int);
def_real!(r_signal, "signal", fn(c_int, libc::sighandler_t) -> libc::sighandler_t);
def_real!(r_sigaction, "sigaction", fn(c_int, *const libc::sigaction, *mut libc::sigaction) -> c_int);
def_real!(r_clock_gettime, "clock_gettime", fn(libc::clockid_t, *mut libc::timespec) -> c_int);
def_real!(r_nanosleep, "nanosleep", fn(*const libc::timespec, *mut libc::timespec) -> c_int);
def_real!(r_clock_nanosleep, "clock_nanosleep", fn(libc::clockid_t, c_int, *const libc::timespec, *mut libc::timespec) -> c_int);
def_real!(r_exit, "_exit", fn(c_int) -> ());
def_real!(r_open64, "open64", fn(*const c_char, c_int, usize) -> c_int);
def_real!(r_open, "open", fn(*const c_char, c_int, usize) -> c_int);
def_real!(r_openat, "openat", fn(c_int, *const c_char, c_int, usize) -> c_int);
def_real!(r_openat64, "openat64", fn(c_int, *const c_char, c_int, usize) -> c_int);
def_real!(r_posix_spawn, "posix_spawn", fn(*mut pid_t, *const c_char, *const c_void, *const c_void, *const *mut c_char, *const *mut c_char) -> c_int);
def_real!(r_posix_spawnp, "posix_spawnp", fn(*mut pid_t, *const c_char, *const c_void, *const c_void, *const *mut c_char, *const *mut c_char) -> c_int);
def_real!(r_close_range, "close_range", fn(libc::c_uint, libc::c_uint, c_int) -> c_int);
def_real!(r_setgroups, "setgroups", fn(size_t, *const libc::gid_t) -> c_int);
def_real!(r_setresuid, "setresuid", fn(libc::uid_t, libc::uid_t, libc::uid_t) -> c_int);
def_real!(r_setresgid, "setresgid", fn(libc::gid_t, libc::gid_t, libc::gid_t) -> c_int);
def_real!(r_setreuid, "setreuid", fn(libc::uid_t, libc::uid_t) -> c_int);
def_real!(r_setregid, "setregid", fn(libc::gid_t, libc::gid_t) -> c_int);
def_real!(r_seteuid, "seteuid", fn(libc::uid_t) -> c_int);
def_real!(r_setegid, "setegid", fn(libc::gid_t) -> c_int);
def_real!(r_syscall, "syscall", fn(libc::c_long, libc::c_long, libc::c_long, libc::c_long, libc::c_long, libc::c_long, libc::c_long) -> libc::c_long);

/// Resolve every real entry point now (in the parent), so that nothing has to be looked up in a forked child.
pub fn init_all() {
    unsafe {
        let _ = (r_pipe(), r_pipe2(), r_fork(), r_close(), r_dup(), r_dup2(), r_dup3(), r_fcntl(), r_read(), r_write());
        let _ = (r_poll(), r_ppoll(), r_waitpid(), r_wait4(), r_waitid(), r_kill(), r_killpg(), r_execve(), r_execv(), r_execvp());
        let _ = (r_execvpe(), r_fexecve(), r_chdir(), r_fchdir(), r_setuid(), r_setgid(), r_setpgid(), r_setsid());
        let _ = (r_pthread_sigmask(), r_sigprocmask(), r_signal(), r_sigaction(), r_clock_gettime(), r_nanosleep(), r_clock_nanosleep());
        let _ = (r_exit(), r_open64(), r_open(), r_openat(), r_openat64(), r_posix_spawn(), r_posix_spawnp(), r_close_range());
        let _ = (r_setgroups(), r_setresuid(), r_setresgid(), r_setreuid(), r_setregid(), r_seteuid(), r_setegid(), r_syscall());
    }
}

/// Names of all interposed symbols (for the blind-spot audit).
pub const INTERPOSED: &[&str] = &[
    "pipe", "pipe2", "fork", "vfork", "close", "dup", "dup2", "dup3", "fcntl", "fcntl64", "read", "write", "poll", "ppoll", "waitpid", "wait4",
    "waitid", "kill", "killpg", "execve", "execv", "execvp", "execvpe", "fexecve", "chdir", "fchdir", "setuid", "setgid", "setpgid",
    "setsid", "pthread_sigmask", "sigprocmask", "signal", "sigaction", "clock_gettime", "nanosleep", "clock_nanosleep", "_exit",
    "open64", "open", "openat", "openat64", "posix_spawn", "posix_spawnp", "close_range", "setgroups", "setresuid", "setresgid",
    "setreuid", "setregid", "seteuid", "setegid", "syscall", "prctl", "sigpending",
];

pub unsafe fn real_clock_gettime(id: libc::clockid_t, ts: *mut libc::timespec) -> c_int {
    r_clock_gettime()(id, ts)
}

pub unsafe fn real_sleep_us(us: u64) {
    if us == 0 {
        return;
    }
    let mut req = libc::timespec { tv_sec: (us / 1_000_000) as _, tv_nsec: ((us % 1_000_000) * 1000) as _ };
    let mut rem = req;
    while r_nanosleep()(&req, &mut rem) != 0 && errno() == libc::EINTR {
        req = rem;
    }
}

pub unsafe fn real_close(fd: c_int) -> c_int {
    r_close()(fd)
}
pub unsafe fn real_kill(pid: pid_t, sig: c_int) -> c_int {
    r_kill()(pid, sig)
}
pub unsafe fn real_waitpid(pid: pid_t, st: *mut c_int, fl: c_int) -> pid_t {
    r_waitpid()(pid, st, fl)
}

macro_rules! pre {
    ($on:expr, $kind:expr, $a0:expr, $cnt:expr) => {{
        if $on {
            let d = plan::decide($kind, $a0 as i64, $cnt as usize);
            if d.delay_before > 0 {
                real_sleep_us(d.delay_before);
            }
            d
        } else {
            plan::Decision::default()
        }
    }};
}

macro_rules! simple {
    ($on:ident, $kind:expr, $args:expr, $call:expr) => {{
        let d = pre!($on, $kind, $args[0], 0);
        if d.fail != 0 {
            set_errno(d.fail);
            log($kind, $args, -1, d.fail, 1);
            return -1;
        }
        let r = $call;
        let e = errno();
        if $on {
            log($kind, $args, r as i64, if (r as i64) < 0 { e } else { 0 }, 0);
            if d.delay_after > 0 {
                real_sleep_us(d.delay_after);
            }
            set_errno(e);
        }
        r
    }};
}

unsafe fn set_pipe_sz(fds: *mut c_int, sz: i64) {
    if sz > 0 {
        r_fcntl()(*fds.offset(1), libc::F_SETPIPE_SZ, sz as usize);
    }
}

#[no_mangle]
pub unsafe extern "C" fn pipe(fds: *mut c_int) -> c_int {
    let on = ilog::active();
    let d = pre!(on, k::PIPE, -1, 0);
    if d.fail != 0 {
        set_errno(d.fail);
        log(k::PIPE, [0, 0, 0, 0], -1, d.fail, 1);
        return -1;
    }
    let r = r_pipe()(fds);
    if on {
        let e = errno();
        if r == 0 {
            set_pipe_sz(fds, d.pipe_sz);
            log(k::PIPE, [*fds as i64, *fds.offset(1) as i64, 0, pipe_ino(*fds)], 0, 0, 0);
        } else {
            log(k::PIPE, [0, 0, 0, 0], -1, e, 0);
        }
        if d.delay_after > 0 {
            real_sleep_us(d.delay_after);
        }
        set_errno(e);
    }
    r
}

#[no_mangle]
pub unsafe extern "C" fn pipe2(fds: *mut c_int, flags: c_int) -> c_int {
    let on = ilog::active();
    // pipe2 shares the PIPE counter so that "k-th descriptor allocation" is independent of which call is used
    let d = pre!(on, k::PIPE, -1, 0);
    if d.fail != 0 {
        set_errno(d.fail);
        log(k::PIPE2, [0, 0, flags as i64, 0], -1, d.fail, 1);
        return -1;
    }
    let r = r_pipe2()(fds, flags);
    if on {
        let e = errno();
        if r == 0 {
            set_pipe_sz(fds, d.pipe_sz);
            log(k::PIPE2, [*fds as i64, *fds.offset(1) as i64, flags as i64, pipe_ino(*fds)], 0, 0, 0);
        } else {
            log(k::PIPE2, [0, 0, flags as i64, 0], -1, e, 0);
        }
        if d.delay_after > 0 {
            real_sleep_us(d.delay_after);
        }
        set_errno(e);
    }
    r
}

unsafe fn pipe_ino(fd: c_int) -> i64 {
    let mut st: libc::stat = std::mem::zeroed();
    if crate::rsys!(libc::SYS_fstat, fd, &mut st as *mut libc::stat) == 0 {
        st.st_ino as i64
    } else {
        0
    }
}

#[no_mangle]
pub unsafe extern "C" fn fork() -> pid_t {
    let on = ilog::active();
    let d = pre!(on, k::FORK, -1, 0);
    if d.fail != 0 {
        set_errno(d.fail);
        log(k::FORK, [0; 4], -1, d.fail, 1);
        return -1;
    }
    let r = r_fork()();
    if r == 0 {
        if on {
            ilog::IN_CHILD.store(true, std::sync::atomic::Ordering::SeqCst);
            log(k::FORK, [0; 4], 0, 0, 0);
            // a signal reaches the new process at once (somebody signals the group, a timer fires): it is sent here, by
            // the child to itself, before the library's code in the child has run at all
            let sig = CHILD_SELF_SIGNAL.load(std::sync::atomic::Ordering::SeqCst);
            if sig != 0 {
                let me = crate::rsys!(libc::SYS_getpid) as i32;
                crate::rsys!(libc::SYS_kill, me, sig);
            }
        }
    } else if on {
        let e = errno();
        log(k::FORK, [0; 4], r as i64, if r < 0 { e } else { 0 }, 0);
        if d.delay_after > 0 {
            real_sleep_us(d.delay_after);
        }
        set_errno(e);
    }
    r
}

#[no_mangle]
pub unsafe extern "C" fn vfork() -> pid_t {
    // a wrapper cannot return twice on a shared stack; fork() is a faithful superset for monitoring purposes
    if ilog::active() {
        log(k::VFORK, [0; 4], 0, 0, 0);
    }
    fork()
}

#[no_mangle]
pub unsafe extern "C" fn close(fd: c_int) -> c_int {
    let on = ilog::active();
    simple!(on, k::CLOSE, [fd as i64, 0, 0, 0], r_close()(fd))
}

#[no_mangle]
pub unsafe extern "C" fn dup(fd: c_int) -> c_int {
    let on = ilog::active();
    simple!(on, k::DUP, [fd as i64, 0, 0, 0], r_dup()(fd))
}

#[no_mangle]
pub unsafe extern "C" fn dup2(a: c_int, b: c_int) -> c_int {
    let on = ilog::active();
    simple!(on, k::DUP2, [a as i64, b as i64, 0, 0], r_dup2()(a, b))
}

#[no_mangle]
pub unsafe extern "C" fn dup3(a: c_int, b: c_int, f: c_int) -> c_int {
    let on = ilog::active();
    simple!(on, k::DUP3, [a as i64, b as i64, f as i64, 0], r_dup3()(a, b, f))
}

#[no_mangle]
pub unsafe extern "C" fn fcntl(fd: c_int, cmd: c_int, arg: usize) -> c_int {
    let on = ilog::active();
    simple!(on, k::FCNTL, [fd as i64, cmd as i64, arg as i64, 0], r_fcntl()(fd, cmd, arg))
}

#[no_mangle]
pub unsafe extern "C" fn fcntl64(fd: c_int, cmd: c_int, arg: usize) -> c_int {
    fcntl(fd, cmd, arg)
}

#[no_mangle]
pub unsafe extern "C" fn read(fd: c_int, buf: *mut c_void, count: size_t) -> ssize_t {
    let on = ilog::active();
    if !on {
        return r_read()(fd, buf, count);
    }
    let d = pre!(on, k::READ, fd, count);
    if d.fail != 0 {
        set_errno(d.fail);
        log(k::READ, [fd as i64, count as i64, 0, 0], -1, d.fail, 1);
        return -1;
    }
    let c = if d.short > 0 { d.short } else { count };
    vclock::op_cost();
    if vclock::pure() && !ilog::IN_CHILD.load(std::sync::atomic::Ordering::SeqCst) && blocking_pipe(fd) {
        // a blocking read of an empty pipe sleeps until a writer acts: it really does, and the virtual clock is charged
        let mut p = libc::pollfd { fd, events: libc::POLLIN, revents: 0 };
        if r_poll()(&mut p, 1, 0) == 0 {
            let t0 = vclock::real_ns();
            r_poll()(&mut p, 1, -1);
            vclock::charge_blocked((vclock::real_ns() - t0) as i64);
        }
    }
    let r = r_read()(fd, buf, c);
    let e = errno();
    if r > 0 {
        plan::BYTES_MOVED.fetch_add(r as u64, std::sync::atomic::Ordering::SeqCst);
    }
    log(k::READ, [fd as i64, count as i64, c as i64, 0], r as i64, if r < 0 { e } else { 0 }, if d.short > 0 { 2 } else { 0 });
    if d.delay_after > 0 {
        real_sleep_us(d.delay_after);
    }
    set_errno(e);
    r
}

#[no_mangle]
pub unsafe extern "C" fn write(fd: c_int, buf: *const c_void, count: size_t) -> ssize_t {
    let on = ilog::active();
    if !on {
        return r_write()(fd, buf, count);
    }
    let d = pre!(on, k::WRITE, fd, count);
    if d.fail != 0 {
        set_errno(d.fail);
        log(k::WRITE, [fd as i64, count as i64, 0, 0], -1, d.fail, 1);
        return -1;
    }
    let c = if d.short > 0 { d.short } else { count };
    vclock::op_cost();
    let r = if vclock::pure() && !ilog::IN_CHILD.load(std::sync::atomic::Ordering::SeqCst) && blocking_pipe(fd) { pure_blocking_write(fd, buf, c) } else { r_write()(fd, buf, c) };
    let e = errno();
    if r > 0 {
        plan::BYTES_MOVED.fetch_add(r as u64, std::sync::atomic::Ordering::SeqCst);
    }
    log(k::WRITE, [fd as i64, count as i64, c as i64, 0], r as i64, if r < 0 { e } else { 0 }, if d.short > 0 { 2 } else { 0 });
    if d.delay_after > 0 {
        real_sleep_us(d.delay_after);
    }
    set_errno(e);
    r
}

/// Is `fd` a pipe end in blocking mode?
unsafe fn blocking_pipe(fd: c_int) -> bool {
    let fl = crate::rsys!(libc::SYS_fcntl, fd, libc::F_GETFL) as i32;
    if fl < 0 || fl & libc::O_NONBLOCK != 0 {
        return false;
    }
    let mut st: libc::stat = std::mem::zeroed();
    crate::rsys!(libc::SYS_fstat, fd, &mut st as *mut libc::stat) == 0 && (st.st_mode & libc::S_IFMT) == libc::S_IFIFO
}

/// A blocking write() to a pipe on the deterministic clock.  The kernel's write sleeps whenever the pipe has no free
/// slot and bytes remain; here the same happens piece by piece (a piece of at most PIPE_BUF bytes never sleeps when
/// poll reports the pipe writable), so that *whether* the call had to sleep is decided by the state of the pipe and
/// not by a stop-watch, and what the sleep took is charged to the virtual clock.
unsafe fn pure_blocking_write(fd: c_int, buf: *const c_void, c: size_t) -> ssize_t {
    if c == 0 {
        return r_write()(fd, buf, 0);
    }
    let mut done: usize = 0;
    while done < c {
        let mut p = libc::pollfd { fd, events: libc::POLLOUT, revents: 0 };
        let pr = r_poll()(&mut p, 1, 0);
        if pr == 0 {
            let t0 = vclock::real_ns();
            r_poll()(&mut p, 1, -1);
            vclock::charge_blocked((vclock::real_ns() - t0) as i64);
            continue;
        }
        let n = if p.revents & libc::POLLOUT != 0 { (c - done).min(4096) } else { c - done };
        let r = r_write()(fd, (buf as *const u8).add(done) as *const c_void, n);
        if r < 0 {
            return if done > 0 { done as ssize_t } else { -1 };
        }
        done += r as usize;
    }
    done as ssize_t
}

unsafe fn pack_fds(fds: *mut libc::pollfd, n: libc::nfds_t) -> (i64, i64) {
    let mut pf: u64 = 0;
    let mut pr: u64 = 0;
    for i in 0..(n as usize).min(4) {
        let p = &*fds.add(i);
        pf |= ((p.fd as i16 as u16) as u64) << (16 * i);
        pr |= ((p.revents as u16) as u64) << (16 * i);
    }
    (pf as i64, pr as i64)
}

/// threads of this process that sit in poll(-1) on an empty descriptor set
pub static EMPTY_WAITS: [std::sync::atomic::AtomicI32; 8] = [const { std::sync::atomic::AtomicI32::new(0) }; 8];

pub fn in_empty_wait(tid: i32) -> bool {
    tid != 0 && EMPTY_WAITS.iter().any(|s| s.load(std::sync::atomic::Ordering::SeqCst) == tid)
}

#[no_mangle]
pub unsafe extern "C" fn poll(fds: *mut libc::pollfd, n: libc::nfds_t, timeout: c_int) -> c_int {
    let on = ilog::active();
    if !on {
        return r_poll()(fds, n, timeout);
    }
    let d = pre!(on, k::POLL, -1, 0);
    if d.fail != 0 {
        set_errno(d.fail);
        log(k::POLL, [0, timeout as i64, 0, n as i64], -1, d.fail, 1);
        return -1;
    }
    let r;
    if timeout < 0 && (0..n as usize).all(|i| (*fds.add(i)).fd < 0) {
        // a wait without a timeout on an empty descriptor set: nothing but a signal can ever end it.  The thread is marked
        // (the wait-for graph shows it as a node that cannot proceed) and sleeps in slices, so that the watchdog can end
        // the call once the verdict is recorded
        let tid = crate::rsys!(libc::SYS_gettid) as i32;
        let slot = EMPTY_WAITS.iter().find(|s| s.compare_exchange(0, tid, std::sync::atomic::Ordering::SeqCst, std::sync::atomic::Ordering::SeqCst).is_ok());
        let gen = crate::watch::RELEASE_GEN.load(std::sync::atomic::Ordering::SeqCst);
        let mut rr;
        loop {
            rr = r_poll()(fds, n, 50);
            if rr != 0 {
                break;
            }
            if crate::watch::RELEASE_GEN.load(std::sync::atomic::Ordering::SeqCst) != gen {
                set_errno(plan::ABORT_ERRNO);
                rr = -1;
                break;
            }
        }
        let e = errno();
        if let Some(s) = slot {
            s.store(0, std::sync::atomic::Ordering::SeqCst);
        }
        set_errno(e);
        r = rr;
    } else if vclock::pure() && timeout < 0 {
        // a wait without a timeout: if nothing is ready it sleeps for as long as it takes, and the virtual clock is charged
        let r0 = r_poll()(fds, n, 0);
        if r0 != 0 {
            r = r0;
        } else {
            let t0 = vclock::real_ns();
            r = r_poll()(fds, n, -1);
            vclock::charge_blocked((vclock::real_ns() - t0) as i64);
        }
    } else if vclock::enabled() && timeout > 0 {
        let cap = vclock::POLL_CAP_MS.load(std::sync::atomic::Ordering::SeqCst).max(0);
        let real_t = (timeout as i64).min(cap) as c_int;
        let t0 = vclock::real_ns();
        r = r_poll()(fds, n, real_t);
        if r == 0 {
            if vclock::PURE.load(std::sync::atomic::Ordering::SeqCst) {
                vclock::advance(timeout as i64 * 1_000_000);
            } else if (timeout as i64) > real_t as i64 {
                let spent = (vclock::real_ns() - t0) as i64;
                vclock::advance(timeout as i64 * 1_000_000 - spent);
            }
        }
    } else {
        r = r_poll()(fds, n, timeout);
    }
    vclock::op_cost();
    let e = errno();
    let (pf, pr) = pack_fds(fds, n);
    log(k::POLL, [pf, timeout as i64, pr, n as i64], r as i64, if r < 0 { e } else { 0 }, 0);
    if d.delay_after > 0 {
        real_sleep_us(d.delay_after);
    }
    set_errno(e);
    r
}

#[no_mangle]
pub unsafe extern "C" fn ppoll(fds: *mut libc::pollfd, n: libc::nfds_t, ts: *const libc::timespec, mask: *const libc::sigset_t) -> c_int {
    let on = ilog::active();
    if !on {
        return r_ppoll()(fds, n, ts, mask);
    }
    // route through poll() semantics so that the virtual clock applies
    let timeout: c_int = if ts.is_null() {
        -1
    } else {
        let ms = (*ts).tv_sec as i64 * 1000 + ((*ts).tv_nsec as i64 + 999_999) / 1_000_000;
        ms.min(i32::MAX as i64) as c_int
    };
    log(k::PPOLL, [0, timeout as i64, 0, n as i64], 0, 0, 0);
    poll(fds, n, timeout)
}

#[no_mangle]
pub unsafe extern "C" fn waitpid(pid: pid_t, status: *mut c_int, flags: c_int) -> pid_t {
    let on = ilog::active();
    let d = pre!(on, k::WAIT4, pid, 0);
    if d.fail != 0 {
        // an interrupted wait: if the monitor has planned the child's exit, it happens now, so that an implementation
        // that retries the wait is not left blocking on a child that never exits
        if d.fail == libc::EINTR && vclock::EXIT_AT.load(std::sync::atomic::Ordering::SeqCst) != 0 {
            vclock::fire_exit();
        }
        set_errno(d.fail);
        log(k::WAIT4, [pid as i64, flags as i64, 0, 0], -1, d.fail, 1);
        return -1;
    }
    if on && flags & libc::WNOHANG != 0 {
        vclock::note_status_check();
    }
    if on && flags & libc::WNOHANG == 0 && pid > 0 && pid == vclock::NEVER_EXITS_PID.load(std::sync::atomic::Ordering::SeqCst) {
        // a wait without WNOHANG on a child that is known never to exit: it would never return
        vclock::BLOCKING_WAITS_ON_NEVER_EXITING.fetch_add(1, std::sync::atomic::Ordering::SeqCst);
        set_errno(plan::ABORT_ERRNO);
        log(k::WAIT4, [pid as i64, flags as i64, 0, 0], -1, plan::ABORT_ERRNO, 1);
        return -1;
    }
    if on && vclock::pure() && flags & libc::WNOHANG == 0 && pid > 0 && pid == vclock::EXIT_PID.load(std::sync::atomic::Ordering::SeqCst) {
        // a wait without WNOHANG on a child whose exit is planned on the deterministic clock sleeps until then
        let at = vclock::EXIT_AT.load(std::sync::atomic::Ordering::SeqCst);
        if at != 0 {
            let now = vclock::now_ns() as i64;
            if at > now {
                vclock::advance(at - now);
            }
            vclock::fire_exit();
        }
    }
    let r = r_waitpid()(pid, status, flags);
    if on {
        let e = errno();
        let st = if !status.is_null() && r > 0 { *status as i64 } else { 0 };
        log(k::WAIT4, [pid as i64, flags as i64, st, 0], r as i64, if r < 0 { e } else { 0 }, 0);
        set_errno(e);
    }
    r
}

#[no_mangle]
pub unsafe extern "C" fn wait4(pid: pid_t, status: *mut c_int, flags: c_int, ru: *mut libc::rusage) -> pid_t {
    let on = ilog::active();
    let d = pre!(on, k::WAIT4, pid, 0);
    if d.fail != 0 {
        set_errno(d.fail);
        log(k::WAIT4, [pid as i64, flags as i64, 0, 1], -1, d.fail, 1);
        return -1;
    }
    let r = r_wait4()(pid, status, flags, ru);
    if on {
        let e = errno();
        let st = if !status.is_null() && r > 0 { *status as i64 } else { 0 };
        log(k::WAIT4, [pid as i64, flags as i64, st, 1], r as i64, if r < 0 { e } else { 0 }, 0);
        set_errno(e);
    }
    r
}

#[no_mangle]
pub unsafe extern "C" fn waitid(idtype: libc::idtype_t, id: libc::id_t, info: *mut libc::siginfo_t, options: c_int) -> c_int {
    let on = ilog::active();
    simple!(on, k::WAITID, [idtype as i64, id as i64, options as i64, 0], r_waitid()(idtype, id, info, options))
}

#[no_mangle]
pub unsafe extern "C" fn kill(pid: pid_t, sig: c_int) -> c_int {
    let on = ilog::active();
    if on && pid <= 1 {
        // a signal to a set of processes (0: the caller's group, -1: everything the caller may signal, < -1: a group) or to
        // init is never carried out when monitored code asks for it - as root it would end the sandbox.  It is logged
        // like any other call, so the oracles see where the signal was meant to go, and reported as delivered
        log(k::KILL, [pid as i64, sig as i64, 0, 0], 0, 0, 0);
        REFUSED_SET_KILLS.fetch_add(1, std::sync::atomic::Ordering::SeqCst);
        return 0;
    }
    simple!(on, k::KILL, [pid as i64, sig as i64, 0, 0], r_kill()(pid, sig))
}

/// signals to process sets that monitored code asked for and the monitor did not carry out
pub static REFUSED_SET_KILLS: std::sync::atomic::AtomicUsize = std::sync::atomic::AtomicUsize::new(0);

/// a signal that every forked child of monitored code sends to itself as its first action (0 = none)
pub static CHILD_SELF_SIGNAL: std::sync::atomic::AtomicI32 = std::sync::atomic::AtomicI32::new(0);

def_real!(r_sigpending, "sigpending", fn(*mut libc::sigset_t) -> c_int);

/// sigpending(): carried out and logged
#[no_mangle]
pub unsafe extern "C" fn sigpending(set: *mut libc::sigset_t) -> c_int {
    let on = ilog::active();
    let r = r_sigpending()(set);
    if on {
        let e = errno();
        log(k::SIGMASK, [-1, 0, 0, 0], r as i64, if r < 0 { e } else { 0 }, 0);
        set_errno(e);
    }
    r
}

/// prctl(): carried out as asked and logged (what a child arranges for itself before exec - a parent-death signal,
/// say - has effects that the oracles then see on the child)
#[no_mangle]
pub unsafe extern "C" fn prctl(option: c_int, a2: usize, a3: usize, a4: usize, a5: usize) -> c_int {
    let on = ilog::active();
    let r = r_prctl()(option, a2, a3, a4, a5);
    if on {
        let e = errno();
        log(k::PRCTL, [option as i64, a2 as i64, a3 as i64, 0], r as i64, if r < 0 { e } else { 0 }, 0);
        set_errno(e);
    }
    r
}

#[no_mangle]
pub unsafe extern "C" fn killpg(pg: pid_t, sig: c_int) -> c_int {
    let on = ilog::active();
    if on && pg <= 1 {
        log(k::KILLPG, [pg as i64, sig as i64, 0, 0], 0, 0, 0);
        REFUSED_SET_KILLS.fetch_add(1, std::sync::atomic::Ordering::SeqCst);
        return 0;
    }
    simple!(on, k::KILLPG, [pg as i64, sig as i64, 0, 0], r_killpg()(pg, sig))
}

unsafe fn cstr_len(p: *const c_char) -> i64 {
    if p.is_null() {
        return -1;
    }
    libc::strlen(p) as i64
}

unsafe fn count_vec(v: *const *const c_char) -> i64 {
    if v.is_null() {
        return -1;
    }
    let mut n = 0;
    while !(*v.offset(n)).is_null() {
        n += 1;
    }
    n as i64
}

unsafe fn note_exec() {
    if ilog::IN_CHILD.load(std::sync::atomic::Ordering::SeqCst) {
        if let Some(s) = ilog::shared() {
            s.child_exec_attempts.fetch_add(1, std::sync::atomic::Ordering::SeqCst);
        }
    }
}

extern "C" {
    static environ: *const *const c_char;
}

#[no_mangle]
pub unsafe extern "C" fn execve(path: *const c_char, argv: *const *const c_char, envp: *const *const c_char) -> c_int {
    let on = ilog::active();
    if on {
        note_exec();
    }
    let args = [cstr_len(path), count_vec(argv), count_vec(envp), fnv_cstr(path)];
    let d = pre!(on, k::EXECVE, -1, 0);
    if d.fail != 0 {
        set_errno(d.fail);
        log(k::EXECVE, args, -1, d.fail, 1);
        return -1;
    }
    let r = r_execve()(path, argv, envp);
    let e = errno();
    if on {
        log(k::EXECVE, args, r as i64, e, 0);
        set_errno(e);
    }
    r
}

unsafe fn fnv_cstr(p: *const c_char) -> i64 {
    if p.is_null() {
        return 0;
    }
    let mut h: u64 = 0xcbf2_9ce4_8422_2325;
    let mut i = 0;
    loop {
        let c = *p.offset(i) as u8;
        if c == 0 {
            break;
        }
        h ^= c as u64;
        h = h.wrapping_mul(0x0000_0100_0000_01b3);
        i += 1;
    }
    h as i64
}

#[no_mangle]
pub unsafe extern "C" fn execv(path: *const c_char, argv: *const *const c_char) -> c_int {
    let on = ilog::active();
    if on {
        note_exec();
    }
    let args = [cstr_len(path), count_vec(argv), -1, fnv_cstr(path)];
    // execv shares the EXECVE counter: "the k-th exec attempt" regardless of which entry point is used
    let d = pre!(on, k::EXECVE, -1, 0);
    if d.fail != 0 {
        set_errno(d.fail);
        log(k::EXECV, args, -1, d.fail, 1);
        return -1;
    }
    let r = r_execve()(path, argv, environ);
    let e = errno();
    if on {
        log(k::EXECV, args, r as i64, e, 0);
        set_errno(e);
    }
    r
}

#[no_mangle]
pub unsafe extern "C" fn execvp(file: *const c_char, argv: *const *const c_char) -> c_int {
    let on = ilog::active();
    if on {
        note_exec();
        log(k::EXECVP, [cstr_len(file), count_vec(argv), -1, fnv_cstr(file)], 0, 0, 0);
    }
    r_execvp()(file, argv)
}

#[no_mangle]
pub unsafe extern "C" fn execvpe(file: *const c_char, argv: *const *const c_char, envp: *const *const c_char) -> c_int {
    let on = ilog::active();
    if on {
        note_exec();
        log(k::EXECVP, [cstr_len(file), count_vec(argv), count_vec(envp), fnv_cstr(file)], 0, 0, 0);
    }
    r_execvpe()(file, argv, envp)
}

#[no_mangle]
pub unsafe extern "C" fn fexecve(fd: c_int, argv: *const *const c_char, envp: *const *const c_char) -> c_int {
    let on = ilog::active();
    if on {
        note_exec();
        log(k::EXECVE, [fd as i64, count_vec(argv), count_vec(envp), 0], 0, 0, 0);
    }
    r_fexecve()(fd, argv, envp)
}

#[no_mangle]
pub unsafe extern "C" fn posix_spawn(pid: *mut pid_t, path: *const c_char, fa: *const c_void, attr: *const c_void, argv: *const *mut c_char, envp: *const *mut c_char) -> c_int {
    let on = ilog::active();
    let r = r_posix_spawn()(pid, path, fa, attr, argv, envp);
    if on {
        log(k::POSIX_SPAWN, [cstr_len(path), 0, 0, 0], if r == 0 && !pid.is_null() { *pid as i64 } else { -1 }, r, 0);
    }
    r
}

#[no_mangle]
pub unsafe extern "C" fn posix_spawnp(pid: *mut pid_t, path: *const c_char, fa: *const c_void, attr: *const c_void, argv: *const *mut c_char, envp: *const *mut c_char) -> c_int {
    let on = ilog::active();
    let r = r_posix_spawnp()(pid, path, fa, attr, argv, envp);
    if on {
        log(k::POSIX_SPAWN, [cstr_len(path), 1, 0, 0], if r == 0 && !pid.is_null() { *pid as i64 } else { -1 }, r, 0);
    }
    r
}

#[no_mangle]
pub unsafe extern "C" fn chdir(path: *const c_char) -> c_int {
    let on = ilog::active();
    simple!(on, k::CHDIR, [cstr_len(path), 0, 0, 0], r_chdir()(path))
}

#[no_mangle]
pub unsafe extern "C" fn fchdir(fd: c_int) -> c_int {
    let on = ilog::active();
    simple!(on, k::FCHDIR, [fd as i64, 0, 0, 0], r_fchdir()(fd))
}

#[no_mangle]
pub unsafe extern "C" fn setuid(uid: libc::uid_t) -> c_int {
    let on = ilog::active();
    simple!(on, k::SETUID, [uid as i64, 0, 0, 0], r_setuid()(uid))
}

#[no_mangle]
pub unsafe extern "C" fn setgid(gid: libc::gid_t) -> c_int {
    let on = ilog::active();
    simple!(on, k::SETGID, [gid as i64, 0, 0, 0], r_setgid()(gid))
}

#[no_mangle]
pub unsafe extern "C" fn seteuid(uid: libc::uid_t) -> c_int {
    let on = ilog::active();
    simple!(on, k::SETRES, [uid as i64, 1, 0, 0], r_seteuid()(uid))
}

#[no_mangle]
pub unsafe extern "C" fn setegid(gid: libc::gid_t) -> c_int {
    let on = ilog::active();
    simple!(on, k::SETRES, [gid as i64, 2, 0, 0], r_setegid()(gid))
}

#[no_mangle]
pub unsafe extern "C" fn setreuid(a: libc::uid_t, b: libc::uid_t) -> c_int {
    let on = ilog::active();
    simple!(on, k::SETRES, [a as i64, 3, b as i64, 0], r_setreuid()(a, b))
}

#[no_mangle]
pub unsafe extern "C" fn setregid(a: libc::gid_t, b: libc::gid_t) -> c_int {
    let on = ilog::active();
    simple!(on, k::SETRES, [a as i64, 4, b as i64, 0], r_setregid()(a, b))
}

#[no_mangle]
pub unsafe extern "C" fn setresuid(a: libc::uid_t, b: libc::uid_t, c: libc::uid_t) -> c_int {
    let on = ilog::active();
    simple!(on, k::SETRES, [a as i64, 5, b as i64, c as i64], r_setresuid()(a, b, c))
}

#[no_mangle]
pub unsafe extern "C" fn setresgid(a: libc::gid_t, b: libc::gid_t, c: libc::gid_t) -> c_int {
    let on = ilog::active();
    simple!(on, k::SETRES, [a as i64, 6, b as i64, c as i64], r_setresgid()(a, b, c))
}

#[no_mangle]
pub unsafe extern "C" fn setgroups(n: size_t, g: *const libc::gid_t) -> c_int {
    let on = ilog::active();
    simple!(on, k::SETGROUPS, [n as i64, 0, 0, 0], r_setgroups()(n, g))
}

#[no_mangle]
pub unsafe extern "C" fn setpgid(pid: pid_t, pgid: pid_t) -> c_int {
    let on = ilog::active();
    simple!(on, k::SETPGID, [pid as i64, pgid as i64, 0, 0], r_setpgid()(pid, pgid))
}

#[no_mangle]
pub unsafe extern "C" fn setsid() -> pid_t {
    let on = ilog::active();
    simple!(on, k::SETSID, [0i64, 0, 0, 0], r_setsid()())
}

unsafe fn sigset_word(set: *const libc::sigset_t) -> i64 {
    if set.is_null() {
        -1
    } else {
        *(set as *const u64) as i64
    }
}

#[no_mangle]
pub unsafe extern "C" fn pthread_sigmask(how: c_int, set: *const libc::sigset_t, old: *mut libc::sigset_t) -> c_int {
    let on = ilog::active();
    let args = [how as i64, sigset_word(set), 0, 0];
    let d = pre!(on, k::SIGMASK, -1, 0);
    if d.fail != 0 {
        // pthread_sigmask returns the error number
        log(k::SIGMASK, args, d.fail as i64, d.fail, 1);
        return d.fail;
    }
    let r = r_pthread_sigmask()(how, set, old);
    if on {
        log(k::SIGMASK, args, r as i64, r, 0);
    }
    r
}

#[no_mangle]
pub unsafe extern "C" fn sigprocmask(how: c_int, set: *const libc::sigset_t, old: *mut libc::sigset_t) -> c_int {
    let on = ilog::active();
    let args = [how as i64, sigset_word(set), 1, 0];
    let d = pre!(on, k::SIGMASK, -1, 0);
    if d.fail != 0 {
        set_errno(d.fail);
        log(k::SIGMASK, args, -1, d.fail, 1);
        return -1;
    }
    let r = r_sigprocmask()(how, set, old);
    if on {
        let e = errno();
        log(k::SIGMASK, args, r as i64, if r < 0 { e } else { 0 }, 0);
        set_errno(e);
    }
    r
}

#[no_mangle]
pub unsafe extern "C" fn signal(sig: c_int, h: libc::sighandler_t) -> libc::sighandler_t {
    let on = ilog::active();
    let args = [sig as i64, h as i64, 0, 0];
    let d = pre!(on, k::SIGNAL, -1, 0);
    if d.fail != 0 {
        set_errno(d.fail);
        log(k::SIGNAL, args, -1, d.fail, 1);
        return libc::SIG_ERR;
    }
    let r = r_signal()(sig, h);
    if on {
        let e = errno();
        log(k::SIGNAL, args, if r == libc::SIG_ERR { -1 } else { 0 }, if r == libc::SIG_ERR { e } else { 0 }, 0);
        set_errno(e);
    }
    r
}

#[no_mangle]
pub unsafe extern "C" fn sigaction(sig: c_int, act: *const libc::sigaction, old: *mut libc::sigaction) -> c_int {
    let on = ilog::active();
    let h = if act.is_null() { -1 } else { (*act).sa_sigaction as i64 };
    let args = [sig as i64, h, 0, 0];
    // shares the SIGNAL counter when it sets a disposition
    let d = if act.is_null() { plan::Decision::default() } else { pre!(on, k::SIGNAL, -1, 0) };
    if d.fail != 0 {
        set_errno(d.fail);
        log(k::SIGACTION, args, -1, d.fail, 1);
        return -1;
    }
    let r = r_sigaction()(sig, act, old);
    if on {
        let e = errno();
        log(k::SIGACTION, args, r as i64, if r < 0 { e } else { 0 }, 0);
        set_errno(e);
    }
    r
}

fn clock_is_monotonic(id: libc::clockid_t) -> bool {
    id == libc::CLOCK_MONOTONIC || id == libc::CLOCK_MONOTONIC_RAW || id == libc::CLOCK_MONOTONIC_COARSE || id == libc::CLOCK_BOOTTIME
}

#[no_mangle]
pub unsafe extern "C" fn clock_gettime(id: libc::clockid_t, ts: *mut libc::timespec) -> c_int {
    let r = r_clock_gettime()(id, ts);
    if r == 0 && vclock::enabled() && clock_is_monotonic(id) && ilog::is_subject() {
        if vclock::PURE.load(std::sync::atomic::Ordering::SeqCst) {
            let t = vclock::read_and_tick();
            (*ts).tv_sec = (t / 1_000_000_000) as _;
            (*ts).tv_nsec = (t % 1_000_000_000) as _;
            return r;
        }
        let skew = vclock::SKEW.load(std::sync::atomic::Ordering::SeqCst);
        if skew != 0 {
            let total = (*ts).tv_sec as i128 * 1_000_000_000 + (*ts).tv_nsec as i128 + skew as i128;
            (*ts).tv_sec = (total / 1_000_000_000) as _;
            (*ts).tv_nsec = (total % 1_000_000_000) as _;
        }
    }
    r
}

unsafe fn ts_ns(ts: *const libc::timespec) -> i64 {
    ((*ts).tv_sec as i64).saturating_mul(1_000_000_000).saturating_add((*ts).tv_nsec as i64)
}

/// naps on the virtual clock that were cut short by an injected signal handler
pub static NAP_INTERRUPTIONS: std::sync::atomic::AtomicU64 = std::sync::atomic::AtomicU64::new(0);

#[no_mangle]
pub unsafe extern "C" fn nanosleep(req: *const libc::timespec, rem: *mut libc::timespec) -> c_int {
    let on = ilog::active();
    if !on {
        return r_nanosleep()(req, rem);
    }
    let ns = ts_ns(req);
    let d = pre!(on, k::NANOSLEEP, -1, 0);
    if vclock::enabled() {
        if d.fail == libc::EINTR && ns > 1 {
            // a signal handler of the caller runs when nine tenths of the nap are over: the rest is reported back
            let part = ns - ns / 10;
            vclock::sleep_virtual(part);
            if !rem.is_null() {
                (*rem).tv_sec = ((ns - part) / 1_000_000_000) as libc::time_t;
                (*rem).tv_nsec = ((ns - part) % 1_000_000_000) as libc::c_long;
            }
            log(k::NANOSLEEP, [ns, 0, 0, part], -1, libc::EINTR, 1);
            NAP_INTERRUPTIONS.fetch_add(1, std::sync::atomic::Ordering::SeqCst);
            set_errno(libc::EINTR);
            return -1;
        }
        vclock::sleep_virtual(ns);
        log(k::NANOSLEEP, [ns, 0, 0, 0], 0, 0, 0);
        return 0;
    }
    let r = r_nanosleep()(req, rem);
    let e = errno();
    log(k::NANOSLEEP, [ns, 0, 0, 0], r as i64, if r < 0 { e } else { 0 }, 0);
    set_errno(e);
    r
}

#[no_mangle]
pub unsafe extern "C" fn clock_nanosleep(id: libc::clockid_t, flags: c_int, req: *const libc::timespec, rem: *mut libc::timespec) -> c_int {
    let on = ilog::active();
    if !on {
        return r_clock_nanosleep()(id, flags, req, rem);
    }
    let d = pre!(on, k::NANOSLEEP, -1, 0);
    let mut ns = ts_ns(req);
    if flags & libc::TIMER_ABSTIME != 0 {
        // absolute deadline on the (virtual) clock
        let now = if clock_is_monotonic(id) { vclock::now_ns() as i64 } else { let mut t = libc::timespec { tv_sec: 0, tv_nsec: 0 }; r_clock_gettime()(id, &mut t); ts_ns(&t) };
        ns = (ns - now).max(0);
    }
    if vclock::enabled() {
        if d.fail == libc::EINTR && ns > 1 {
            // (clock_nanosleep returns the error number; the remainder is reported for relative sleeps only)
            let part = ns - ns / 10;
            vclock::sleep_virtual(part);
            if !rem.is_null() && flags & libc::TIMER_ABSTIME == 0 {
                (*rem).tv_sec = ((ns - part) / 1_000_000_000) as libc::time_t;
                (*rem).tv_nsec = ((ns - part) % 1_000_000_000) as libc::c_long;
            }
            log(k::NANOSLEEP, [ns, 1, flags as i64, part], libc::EINTR as i64, libc::EINTR, 1);
            NAP_INTERRUPTIONS.fetch_add(1, std::sync::atomic::Ordering::SeqCst);
            return libc::EINTR;
        }
        vclock::sleep_virtual(ns);
        log(k::NANOSLEEP, [ns, 1, flags as i64, 0], 0, 0, 0);
        return 0;
    }
    let r = r_clock_nanosleep()(id, flags, req, rem);
    log(k::NANOSLEEP, [ns, 1, flags as i64, 0], r as i64, r, 0);
    r
}

#[no_mangle]
pub unsafe extern "C" fn _exit(code: c_int) -> ! {
    if ilog::active() {
        log(k::EXIT, [code as i64, 0, 0, 0], 0, 0, 0);
    }
    r_exit()(code);
    libc::abort()
}

#[no_mangle]
pub unsafe extern "C" fn open64(path: *const c_char, flags: c_int, mode: usize) -> c_int {
    let on = ilog::active();
    simple!(on, k::OPEN, [-1, flags as i64, mode as i64, fnv_cstr(path)], r_open64()(path, flags, mode))
}

#[no_mangle]
pub unsafe extern "C" fn open(path: *const c_char, flags: c_int, mode: usize) -> c_int {
    let on = ilog::active();
    simple!(on, k::OPEN, [-1, flags as i64, mode as i64, fnv_cstr(path)], r_open()(path, flags, mode))
}

#[no_mangle]
pub unsafe extern "C" fn openat(dfd: c_int, path: *const c_char, flags: c_int, mode: usize) -> c_int {
    let on = ilog::active();
    simple!(on, k::OPEN, [dfd as i64, flags as i64, mode as i64, fnv_cstr(path)], r_openat()(dfd, path, flags, mode))
}

#[no_mangle]
pub unsafe extern "C" fn openat64(dfd: c_int, path: *const c_char, flags: c_int, mode: usize) -> c_int {
    let on = ilog::active();
    simple!(on, k::OPEN, [dfd as i64, flags as i64, mode as i64, fnv_cstr(path)], r_openat64()(dfd, path, flags, mode))
}

#[no_mangle]
pub unsafe extern "C" fn close_range(a: libc::c_uint, b: libc::c_uint, f: c_int) -> c_int {
    let on = ilog::active();
    simple!(on, k::CLOSE_RANGE, [a as i64, b as i64, f as i64, 0], r_close_range()(a, b, f))
}

/// syscall(number, ...): the library (or a change to it) may go to the kernel directly.  pidfd_open is modelled (a
/// descriptor-creating call that can fail like any other); harmless numbers pass; anything else made by monitored code
/// is a call the monitors do not see through their usual entry points: it is logged and counted as a blind spot.
#[no_mangle]
pub unsafe extern "C" fn syscall(num: libc::c_long, a1: libc::c_long, a2: libc::c_long, a3: libc::c_long, a4: libc::c_long, a5: libc::c_long, a6: libc::c_long) -> libc::c_long {
    if !ilog::active() {
        return r_syscall()(num, a1, a2, a3, a4, a5, a6);
    }
    if num == libc::SYS_pidfd_open {
        let d = plan::decide(k::PIDFD_OPEN, a1 as i64, 0);
        if d.fail != 0 {
            set_errno(d.fail);
            log(k::PIDFD_OPEN, [a1 as i64, a2 as i64, 0, 0], -1, d.fail, 1);
            return -1;
        }
        let r = r_syscall()(num, a1, a2, a3, a4, a5, a6);
        let e = errno();
        log(k::PIDFD_OPEN, [a1 as i64, a2 as i64, 0, 0], r as i64, if r < 0 { e } else { 0 }, 0);
        set_errno(e);
        return r;
    }
    let harmless = [libc::SYS_gettid, libc::SYS_getpid, libc::SYS_getrandom, libc::SYS_futex, libc::SYS_sched_yield, libc::SYS_getuid, libc::SYS_geteuid, libc::SYS_getgid, libc::SYS_getegid, libc::SYS_clock_gettime, libc::SYS_fstat, libc::SYS_newfstatat, libc::SYS_statx, libc::SYS_lseek];
    let r = r_syscall()(num, a1, a2, a3, a4, a5, a6);
    let e = errno();
    if !harmless.contains(&num) {
        if let Some(s) = ilog::shared() {
            s.unmodelled_raw_syscalls.fetch_add(1, std::sync::atomic::Ordering::SeqCst);
        }
        log(k::RAWSYS, [num as i64, a1 as i64, a2 as i64, a3 as i64], r as i64, if r < 0 { e } else { 0 }, 0);
    }
    set_errno(e);
    r
}

/// The monitor's own direct system calls (never seen by the `syscall` interposer above).
pub unsafe fn real_syscall(num: libc::c_long, a: &[libc::c_long]) -> libc::c_long {
    let g = |i: usize| a.get(i).cloned().unwrap_or(0);
    r_syscall()(num, g(0), g(1), g(2), g(3), g(4), g(5))
}
