// Worker context: case scheduling (sharding), statistics, verdict records,
// result stream to the driver.

use crate::ilog::{self, Ev};
use crate::inspect::{self, Certificate};
use crate::json::J;
use crate::rng::Rng;
use crate::{plan, vclock, watch};
use std::collections::{BTreeMap, BTreeSet};
use std::io::Write;
use std::path::PathBuf;
use std::sync::atomic::{AtomicBool, Ordering::SeqCst};
use std::sync::Mutex;
use std::time::Instant;

#[derive(Clone, Copy, PartialEq, Eq, Debug)]
pub enum Tier {
    Quick,
    Thorough,
}

pub struct Ctx {
    pub prop: String,
    pub tier: Tier,
    pub seed: u64,
    pub shard: u64,
    pub nshards: u64,
    pub only: Option<(String, u64)>, // replay: family, index
    pub work: PathBuf,
    pub vchild: PathBuf,
    pub out: std::fs::File,
    pub stats: BTreeMap<String, i64>,
    pub distinct: BTreeSet<u64>,
    pub samples: Vec<J>,
    pub violations: Vec<J>,
    pub inconclusive: Vec<J>,
    pub cases: u64,
    pub started: Instant,
    pub budget_s: f64,
    pub cur_family: String,
    pub cur_index: u64,
    pub truncated: bool,
    pub case_counter: u64,
    pub verbose: bool,
}

pub static FATAL: AtomicBool = AtomicBool::new(false);
/// set when the generous wall-clock watchdog had to end a case: whatever the oracles say afterwards is withheld (inconclusive)
pub static CASE_TAINTED: AtomicBool = AtomicBool::new(false);
static OUT_PATH: Mutex<Option<PathBuf>> = Mutex::new(None);
/// scratch directories of the current case: removed when the case ends (thorough tiers run 10^5 cases)
static SCRATCH_DIRS: Mutex<Vec<PathBuf>> = Mutex::new(Vec::new());

/// (property, family, index, seed, tier) of the case in progress, for records written by the watchdog thread
pub static CUR_CASE: Mutex<(String, String, u64, u64, String)> = Mutex::new((String::new(), String::new(), 0, 0, String::new()));

/// The subject thread burns CPU without issuing a single system call: a busy loop in library code.  The loop cannot
/// be ended from outside, so the verdict is written straight to the result stream and the worker exits.
pub fn fatal_spin(cpu_s: f64) -> ! {
    FATAL.store(true, SeqCst);
    let c = CUR_CASE.lock().unwrap_or_else(|e| e.into_inner()).clone();
    if let Some(p) = OUT_PATH.lock().unwrap_or_else(|e| e.into_inner()).clone() {
        if let Ok(mut f) = std::fs::OpenOptions::new().append(true).open(p) {
            let case = J::obj().set("property", J::s(&c.0)).set("family", J::s(&c.1)).set("index", J::i(c.2 as i64)).set("seed", J::i(c.3 as i64)).set("tier", J::s(&c.4));
            let j = J::obj()
                .set("type", J::s("violation"))
                .set("signature", J::s(&format!("{}/busy-loop-without-system-calls/{}", c.0, c.1)))
                .set("what", J::s(&format!("the library call consumed {:.1} s of CPU time without issuing a single system call: it spins forever", cpu_s)))
                .set("case", case)
                .set("witness", J::obj().set("events_tail", J::arr_s(&ilog::fmt_tail(&ilog::snapshot(), 20))));
            let _ = writeln!(f, "{}", j.dump());
        }
    }
    inspect::kill_descendants();
    unsafe { crate::rsys!(libc::SYS_exit_group, 4) };
    unreachable!()
}

/// The worker cannot continue (a case hangs without a certificate).  Recorded as inconclusive by the driver.
pub fn fatal_inconclusive(why: &str) -> ! {
    FATAL.store(true, SeqCst);
    if let Some(p) = OUT_PATH.lock().unwrap_or_else(|e| e.into_inner()).clone() {
        if let Ok(mut f) = std::fs::OpenOptions::new().append(true).open(p) {
            let j = J::obj().set("type", J::s("fatal")).set("why", J::s(why));
            let _ = writeln!(f, "{}", j.dump());
        }
    }
    inspect::kill_descendants();
    unsafe { crate::rsys!(libc::SYS_exit_group, 3) };
    unreachable!()
}

impl Ctx {
    pub fn new(prop: &str, tier: Tier, seed: u64, shard: u64, nshards: u64, work: PathBuf, vchild: PathBuf, outp: PathBuf, budget_s: f64) -> Ctx {
        *OUT_PATH.lock().unwrap() = Some(outp.clone());
        let out = std::fs::OpenOptions::new().create(true).append(true).open(&outp).expect("open out");
        Ctx {
            prop: prop.to_string(),
            tier,
            seed,
            shard,
            nshards,
            only: None,
            work,
            vchild,
            out,
            stats: BTreeMap::new(),
            distinct: BTreeSet::new(),
            samples: vec![],
            violations: vec![],
            inconclusive: vec![],
            cases: 0,
            started: Instant::now(),
            budget_s,
            cur_family: String::new(),
            cur_index: 0,
            truncated: false,
            case_counter: 0,
            verbose: false,
        }
    }

    pub fn quick(&self) -> bool {
        self.tier == Tier::Quick
    }

    /// pick by tier
    pub fn n(&self, quick: u64, thorough: u64) -> u64 {
        if self.quick() { quick } else { thorough }
    }

    pub fn count(&mut self, key: &str, n: i64) {
        *self.stats.entry(key.to_string()).or_insert(0) += n;
    }
    pub fn max(&mut self, key: &str, n: i64) {
        let e = self.stats.entry(format!("max.{}", key)).or_insert(i64::MIN);
        if n > *e {
            *e = n;
        }
    }
    pub fn min(&mut self, key: &str, n: i64) {
        let e = self.stats.entry(format!("min.{}", key)).or_insert(i64::MAX);
        if n < *e {
            *e = n;
        }
    }

    /// Record that a distinct, non-trivial case class was exercised.
    pub fn distinct(&mut self, class: &str) {
        self.distinct.insert(crate::common::fnv(class.as_bytes()));
    }
    pub fn distinct_h(&mut self, h: u64) {
        self.distinct.insert(h);
    }

    pub fn sample(&mut self, j: J) {
        if self.samples.len() < 4 {
            self.samples.push(j);
        }
    }

    fn case_id(&self) -> J {
        J::obj()
            .set("property", J::s(&self.prop))
            .set("family", J::s(&self.cur_family))
            .set("index", J::i(self.cur_index as i64))
            .set("seed", J::i(self.seed as i64))
            .set("tier", J::s(if self.quick() { "quick" } else { "thorough" }))
    }

    /// A refutation of the property.  `signature` identifies the failing input class + witness shape.
    pub fn violation(&mut self, signature: &str, what: &str, witness: J) {
        if CASE_TAINTED.load(SeqCst) {
            self.inconclusive("wall-clock watchdog fired during this case; verdict withheld", J::obj().set("would_be", J::s(signature)));
            return;
        }
        // children report through files in the scratch directory: without space the observations are unreliable
        if free_mb(&self.work) < 64 {
            self.inconclusive("scratch filesystem (almost) full; verdict withheld", J::obj().set("would_be", J::s(signature)));
            return;
        }
        let j = J::obj()
            .set("type", J::s("violation"))
            .set("signature", J::s(signature))
            .set("what", J::s(what))
            .set("case", self.case_id())
            .set("witness", witness);
        if self.verbose {
            eprintln!("VIOLATION {} {}", signature, what);
        }
        let _ = writeln!(self.out, "{}", j.dump());
        self.count("violations", 1);
        if self.violations.len() < 50 {
            self.violations.push(j);
        }
    }

    pub fn inconclusive(&mut self, why: &str, detail: J) {
        let j = J::obj().set("type", J::s("inconclusive")).set("why", J::s(why)).set("case", self.case_id()).set("detail", detail);
        let _ = writeln!(self.out, "{}", j.dump());
        self.count("inconclusive", 1);
        if self.inconclusive.len() < 20 {
            self.inconclusive.push(j);
        }
    }

    /// Run a family of `total` cases; this shard runs every case whose global counter falls on it.
    pub fn family(&mut self, name: &str, total: u64, mut f: impl FnMut(&mut Ctx, &mut Rng, u64)) {
        if let Some((fam, idx)) = self.only.clone() {
            if fam == name {
                self.cur_family = name.to_string();
                self.cur_index = idx;
                let mut rng = Rng::new(self.seed, crate::common::fnv(name.as_bytes()), idx);
                self.cases += 1;
                f(self, &mut rng, idx);
            }
            return;
        }
        self.cur_family = name.to_string();
        for i in 0..total {
            let mine = self.case_counter % self.nshards == self.shard;
            self.case_counter += 1;
            if !mine {
                continue;
            }
            if self.started.elapsed().as_secs_f64() > self.budget_s {
                self.truncated = true;
                self.count(&format!("truncated_cases.{}", name), (total - i) as i64 / self.nshards.max(1) as i64 + 1);
                break;
            }
            self.cur_index = i;
            *CUR_CASE.lock().unwrap_or_else(|e| e.into_inner()) = (self.prop.clone(), name.to_string(), i, self.seed, if self.quick() { "quick".into() } else { "thorough".into() });
            let mut rng = Rng::new(self.seed, crate::common::fnv(name.as_bytes()), i);
            self.cases += 1;
            self.count(&format!("cases.{}", name), 1);
            f(self, &mut rng, i);
            if FATAL.load(SeqCst) {
                break;
            }
        }
    }

    pub fn finish(&mut self) {
        let mut stats = J::obj();
        for (k, v) in &self.stats {
            stats.put(k, J::Int(*v));
        }
        let raw = RAW_SYSCALLS_SEEN.load(SeqCst);
        if raw > 0 {
            // the library went to the kernel through syscall() with numbers the monitors do not model: whatever those
            // calls did was not observed through the usual entry points - no verdict is given on such a run
            let j = J::obj().set("type", J::s("inconclusive")).set("why", J::s(&format!("monitor blind spot: {} direct syscall() invocation(s) by the library that the monitors do not model", raw))).set("detail", J::Null);
            for _ in 0..(self.cases / 20 + 4) {
                let _ = writeln!(self.out, "{}", j.dump());
            }
        }
        let j = J::obj()
            .set("type", J::s("summary"))
            .set("shard", J::i(self.shard as i64))
            .set("cases", J::i(self.cases as i64))
            .set("stats", stats)
            .set("distinct_n", J::i(self.distinct.len() as i64))
            .set("samples", J::Arr(self.samples.clone()))
            .set("truncated", J::Bool(self.truncated))
            .set("wall_s", J::Num(self.started.elapsed().as_secs_f64()))
            .set("analyses", J::i(watch::ANALYSES.load(SeqCst) as i64))
            .set("certificates", J::i(watch::CERTS.load(SeqCst) as i64));
        let _ = writeln!(self.out, "{}", j.dump());
        let _ = self.out.flush();
        // distinct class hashes go to a side file (raw little-endian u64) so that the driver can union them across shards
        if let Some(p) = OUT_PATH.lock().unwrap_or_else(|e| e.into_inner()).clone() {
            let mut b = Vec::with_capacity(self.distinct.len() * 8);
            for h in &self.distinct {
                b.extend_from_slice(&h.to_le_bytes());
            }
            let _ = std::fs::write(format!("{}.distinct", p.display()), b);
        }
    }

    /// fresh scratch directory for a case (mode 0777 so that children running under another uid can write reports)
    /// scratch directory that survives end_case() (for cases made of several launches); the caller removes it
    pub fn scratch_keep(&mut self, tag: &str) -> PathBuf {
        let d = self.scratch(tag);
        SCRATCH_DIRS.lock().unwrap_or_else(|e| e.into_inner()).retain(|x| *x != d);
        d
    }

    pub fn scratch(&mut self, tag: &str) -> PathBuf {
        let d = self.work.join(format!("{}-{}-{}", tag, self.cur_family.replace('/', "_"), self.cur_index));
        let _ = std::fs::remove_dir_all(&d);
        SCRATCH_DIRS.lock().unwrap_or_else(|e| e.into_inner()).push(d.clone());
        std::fs::create_dir_all(&d).expect("scratch");
        use std::os::unix::fs::PermissionsExt;
        let _ = std::fs::set_permissions(&d, std::fs::Permissions::from_mode(0o777));
        d
    }
}

// ------------------------------------------------------------------ monitored execution

pub struct Monitored<T> {
    pub result: Option<T>,
    pub panic: Option<String>,
    pub cert: Option<Certificate>,
    pub hard_timeout: bool,
    pub ev_start: usize,
    pub ev_end: usize,
    pub t0_vt: u64,
    pub t1_vt: u64,
}

impl<T> Monitored<T> {
    pub fn events(&self) -> Vec<Ev> {
        ilog::snapshot_from(self.ev_start).into_iter().take(self.ev_end - self.ev_start).collect()
    }
}

thread_local! {
    static LAST_PANIC: std::cell::RefCell<Option<String>> = const { std::cell::RefCell::new(None) };
}

pub fn install_panic_hook() {
    std::panic::set_hook(Box::new(|info| {
        if ilog::IN_CHILD.load(SeqCst) {
            // library code panicked in a forked child: record it and stop the child right here
            if let Some(s) = ilog::shared() {
                s.child_panics.fetch_add(1, SeqCst);
            }
            let line = info.location().map(|l| l.line() as i64).unwrap_or(0);
            ilog::log(ilog::k::PANIC, [line, 0, 0, 0], 0, 0, 0);
            unsafe { crate::rsys!(libc::SYS_exit_group, 101) };
        }
        let msg = if let Some(s) = info.payload().downcast_ref::<&str>() {
            s.to_string()
        } else if let Some(s) = info.payload().downcast_ref::<String>() {
            s.clone()
        } else {
            "panic".to_string()
        };
        let loc = info.location().map(|l| format!("{}:{}", l.file(), l.line())).unwrap_or_default();
        let was = ilog::is_subject();
        if !was && std::env::var_os("VMON_DEBUG").is_some() {
            eprintln!("[vmon] panic outside monitored code: {} at {}", msg, loc);
        }
        LAST_PANIC.with(|p| *p.borrow_mut() = Some(format!("{} at {}", msg, loc)));
    }));
}

/// Start a new case: clear log, plans, clocks.
pub fn begin_case() {
    CASE_TAINTED.store(false, SeqCst);
    ilog::disarm();
    ilog::reset();
    plan::clear();
    vclock::disable();
}

/// Run `f` from the destructor of a guard while the thread is unwinding from a panic of the caller (the panic is caught
/// right here): scope guards, Drop impls that shut things down.
pub fn in_unwinding_destructor<T>(f: impl FnOnce() -> T) -> Option<T> {
    let mut out = None;
    let mut f = Some(f);
    {
        struct G<'a>(&'a mut dyn FnMut());
        impl Drop for G<'_> {
            fn drop(&mut self) {
                (self.0)()
            }
        }
        let mut call = || {
            if let Some(f) = f.take() {
                out = Some(f());
            }
        };
        let _ = std::panic::catch_unwind(std::panic::AssertUnwindSafe(|| {
            let _g = G(&mut call);
            panic!("the caller unwinds; a guard of its makes library calls from its destructor");
        }));
    }
    out
}

/// Run library code under observation on this thread.
pub fn monitored<T>(f: impl FnOnce() -> T) -> Monitored<T> {
    let ev_start = ilog::len();
    LAST_PANIC.with(|p| *p.borrow_mut() = None);
    watch::begin();
    ilog::arm();
    let t0 = vclock::now_ns();
    let r = ilog::subject(|| std::panic::catch_unwind(std::panic::AssertUnwindSafe(f)));
    let t1 = vclock::now_ns();
    ilog::disarm();
    let (cert, hard) = watch::end();
    let ev_end = ilog::len();
    let (result, panic) = match r {
        Ok(v) => (Some(v), None),
        Err(_) => (None, Some(LAST_PANIC.with(|p| p.borrow_mut().take()).unwrap_or_else(|| "panic".into()))),
    };
    Monitored { result, panic, cert, hard_timeout: hard, ev_start, ev_end, t0_vt: t0, t1_vt: t1 }
}

pub static RAW_SYSCALLS_SEEN: std::sync::atomic::AtomicUsize = std::sync::atomic::AtomicUsize::new(0);

/// End of a case: kill and reap whatever is left, so that cases do not influence each other.
pub fn end_case() {
    if let Some(s) = ilog::shared() {
        RAW_SYSCALLS_SEEN.fetch_add(s.unmodelled_raw_syscalls.load(SeqCst), SeqCst);
    }
    ilog::disarm();
    plan::clear();
    vclock::disable();
    ilog::EXIT_HANDLER_BLOCKS.store(false, SeqCst);
    end_case_inner();
    let dirs: Vec<PathBuf> = std::mem::take(&mut *SCRATCH_DIRS.lock().unwrap_or_else(|e| e.into_inner()));
    for d in dirs {
        let _ = std::fs::remove_dir_all(&d);
    }
}

fn end_case_inner() {
    let mut tries = 0;
    loop {
        inspect::kill_descendants();
        inspect::reap_all();
        if inspect::children_of(inspect::self_pid()).is_empty() || tries > 50 {
            break;
        }
        tries += 1;
        std::thread::sleep(std::time::Duration::from_millis(2));
    }
}

pub fn free_mb(p: &std::path::Path) -> u64 {
    let c = match std::ffi::CString::new(p.to_string_lossy().as_bytes()) {
        Ok(c) => c,
        Err(_) => return u64::MAX,
    };
    unsafe {
        let mut st: libc::statvfs = std::mem::zeroed();
        if libc::statvfs(c.as_ptr(), &mut st) != 0 {
            return u64::MAX;
        }
        (st.f_bavail as u64).saturating_mul(st.f_frsize as u64) / (1 << 20)
    }
}

pub fn cert_json(c: &Certificate) -> J {
    J::obj().set("shape", J::s(&c.shape())).set("graph", J::arr_s(&c.describe()))
}

pub fn events_json(evs: &[Ev], tail: usize) -> J {
    J::arr_s(&ilog::fmt_tail(evs, tail))
}
