// UTF-16 shim standing in for std::os::windows::ffi on Linux, so that the
// crate's cfg(windows) string code can be executed here.  Inputs used by
// the checks are valid Unicode, so UTF-8 <-> UTF-16 is exact.
use std::ffi::{OsStr, OsString};
use std::os::unix::ffi::{OsStrExt as _, OsStringExt as _};

pub trait OsStrExt {
    fn encode_wide(&self) -> std::vec::IntoIter<u16>;
}

impl OsStrExt for OsStr {
    fn encode_wide(&self) -> std::vec::IntoIter<u16> {
        let s = String::from_utf8_lossy(self.as_bytes());
        s.encode_utf16().collect::<Vec<u16>>().into_iter()
    }
}

pub trait OsStringExt {
    fn from_wide(wide: &[u16]) -> Self;
}

impl OsStringExt for OsString {
    fn from_wide(wide: &[u16]) -> OsString {
        OsString::from_vec(String::from_utf16_lossy(wide).into_bytes())
    }
}
