// Deterministic case generator: every case is a pure function of (seed, shard, index).
use crate::common::splitmix64;

#[derive(Clone)]
pub struct Rng(pub u64);

impl Rng {
    pub fn new(seed: u64, shard: u64, index: u64) -> Rng {
        Rng(splitmix64(seed ^ splitmix64(shard.wrapping_mul(0x9E37_79B9) ^ splitmix64(index))))
    }
    pub fn next(&mut self) -> u64 {
        self.0 = self.0.wrapping_add(0x9E37_79B9_7F4A_7C15);
        splitmix64(self.0)
    }
    /// uniform in 0..n (n > 0)
    pub fn below(&mut self, n: u64) -> u64 {
        if n == 0 { 0 } else { self.next() % n }
    }
    pub fn range(&mut self, lo: u64, hi: u64) -> u64 {
        // inclusive
        lo + self.below(hi - lo + 1)
    }
    pub fn chance(&mut self, per_mille: u64) -> bool {
        self.below(1000) < per_mille
    }
    pub fn pick<'a, T>(&mut self, xs: &'a [T]) -> &'a T {
        &xs[self.below(xs.len() as u64) as usize]
    }
    pub fn bytes(&mut self, n: usize) -> Vec<u8> {
        (0..n).map(|_| self.next() as u8).collect()
    }
    /// bytes without NUL
    pub fn bytes_nonul(&mut self, n: usize) -> Vec<u8> {
        (0..n).map(|_| { let b = self.next() as u8; if b == 0 { 1 } else { b } }).collect()
    }
    pub fn shuffle<T>(&mut self, xs: &mut [T]) {
        for i in (1..xs.len()).rev() {
            let j = self.below(i as u64 + 1) as usize;
            xs.swap(i, j);
        }
    }
}
