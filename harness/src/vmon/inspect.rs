// /proc inspector: process tree, descriptor tables, wait-for graph and
// deadlock certificates.  Runs in the worker (outside the library), uses
// only /proc.

use std::collections::{BTreeMap, BTreeSet};
use std::sync::Mutex;

/// Serialises /proc scans with descriptor audits (both open transient descriptors).
pub static PROC_LOCK: Mutex<()> = Mutex::new(());

thread_local! {
    static HOLDS_PROC_LOCK: std::cell::Cell<bool> = const { std::cell::Cell::new(false) };
}

/// PROC_LOCK, re-entrant for the thread that already holds it (a case that keeps descriptor numbers free while it
/// runs holds the lock throughout and still takes descriptor snapshots).
pub struct ProcGuard(Option<std::sync::MutexGuard<'static, ()>>);

impl Drop for ProcGuard {
    fn drop(&mut self) {
        if self.0.is_some() {
            HOLDS_PROC_LOCK.with(|h| h.set(false));
        }
    }
}

pub fn proc_guard() -> ProcGuard {
    if HOLDS_PROC_LOCK.with(|h| h.get()) {
        return ProcGuard(None);
    }
    let g = PROC_LOCK.lock().unwrap_or_else(|e| e.into_inner());
    HOLDS_PROC_LOCK.with(|h| h.set(true));
    ProcGuard(Some(g))
}

/// For the watchdog thread: never waits (a case may hold the lock for as long as it runs).
pub fn try_proc_guard() -> Option<ProcGuard> {
    match PROC_LOCK.try_lock() {
        Ok(g) => {
            HOLDS_PROC_LOCK.with(|h| h.set(true));
            Some(ProcGuard(Some(g)))
        }
        Err(std::sync::TryLockError::Poisoned(e)) => {
            HOLDS_PROC_LOCK.with(|h| h.set(true));
            Some(ProcGuard(Some(e.into_inner())))
        }
        Err(_) => None,
    }
}

#[derive(Clone, Debug)]
pub struct FdEnt {
    pub fd: i32,
    pub target: String,
    pub flags: u32, // from fdinfo (O_* flags incl. O_CLOEXEC)
}

impl FdEnt {
    pub fn pipe_ino(&self) -> Option<u64> {
        pipe_ino(&self.target)
    }
    pub fn cloexec(&self) -> bool {
        self.flags & libc::O_CLOEXEC as u32 != 0
    }
    pub fn can_write(&self) -> bool {
        let m = self.flags & libc::O_ACCMODE as u32;
        m == libc::O_WRONLY as u32 || m == libc::O_RDWR as u32
    }
    pub fn can_read(&self) -> bool {
        let m = self.flags & libc::O_ACCMODE as u32;
        m == libc::O_RDONLY as u32 || m == libc::O_RDWR as u32
    }
}

pub fn pipe_ino(target: &str) -> Option<u64> {
    target.strip_prefix("pipe:[").and_then(|r| r.strip_suffix(']')).and_then(|n| n.parse().ok())
}

pub fn self_pid() -> i32 {
    unsafe { libc::syscall(libc::SYS_getpid) as i32 }
}

pub fn gettid() -> i32 {
    unsafe { libc::syscall(libc::SYS_gettid) as i32 }
}

/// Descriptor table of `pid` (entries that disappear while scanning are skipped).
pub fn fd_table(pid: i32) -> Vec<FdEnt> {
    let mut v = vec![];
    let dir = format!("/proc/{}/fd", pid);
    let rd = match std::fs::read_dir(&dir) {
        Ok(r) => r,
        Err(_) => return v,
    };
    let mut names: Vec<i32> = vec![];
    for e in rd.flatten() {
        if let Ok(n) = e.file_name().to_string_lossy().parse::<i32>() {
            names.push(n);
        }
    }
    // read_dir's own descriptor is closed now; entries that no longer resolve are dropped below
    names.sort();
    for fd in names {
        let target = match std::fs::read_link(format!("{}/{}", dir, fd)) {
            Ok(t) => t.to_string_lossy().into_owned(),
            Err(_) => continue,
        };
        let mut flags = 0u32;
        if let Ok(info) = std::fs::read_to_string(format!("/proc/{}/fdinfo/{}", pid, fd)) {
            for l in info.lines() {
                if let Some(f) = l.strip_prefix("flags:") {
                    flags = u32::from_str_radix(f.trim(), 8).unwrap_or(0);
                }
            }
        } else {
            continue;
        }
        v.push(FdEnt { fd, target, flags });
    }
    v
}

pub fn self_fd_table() -> Vec<FdEnt> {
    let _g = proc_guard();
    let me = self_pid();
    fd_table(me)
}

pub fn children_of(pid: i32) -> Vec<i32> {
    let mut out = vec![];
    if let Ok(rd) = std::fs::read_dir(format!("/proc/{}/task", pid)) {
        for t in rd.flatten() {
            if let Ok(s) = std::fs::read_to_string(t.path().join("children")) {
                for w in s.split_whitespace() {
                    if let Ok(p) = w.parse::<i32>() {
                        out.push(p);
                    }
                }
            }
        }
    }
    out.sort();
    out.dedup();
    out
}

pub fn descendants(pid: i32) -> Vec<i32> {
    let mut out = vec![];
    let mut stack = children_of(pid);
    let mut seen = BTreeSet::new();
    while let Some(p) = stack.pop() {
        if !seen.insert(p) {
            continue;
        }
        out.push(p);
        stack.extend(children_of(p));
    }
    out.sort();
    out
}

/// State letter from /proc/<pid>/stat ('R','S','D','Z','T',...), None if the process does not exist.
pub fn proc_state(pid: i32) -> Option<char> {
    let s = std::fs::read_to_string(format!("/proc/{}/stat", pid)).ok()?;
    let r = s.rfind(')')?;
    s[r + 1..].split_whitespace().next()?.chars().next()
}

pub fn proc_ppid(pid: i32) -> Option<i32> {
    let s = std::fs::read_to_string(format!("/proc/{}/stat", pid)).ok()?;
    let r = s.rfind(')')?;
    s[r + 1..].split_whitespace().nth(1)?.parse().ok()
}

pub fn proc_exe(pid: i32) -> Option<String> {
    std::fs::read_link(format!("/proc/{}/exe", pid)).ok().map(|p| p.to_string_lossy().into_owned())
}

pub fn proc_cmdline(pid: i32) -> String {
    std::fs::read(format!("/proc/{}/cmdline", pid))
        .map(|b| String::from_utf8_lossy(&b).replace('\0', " ").trim().chars().take(120).collect())
        .unwrap_or_default()
}

pub fn threads_of(pid: i32) -> Vec<i32> {
    let mut v = vec![];
    if let Ok(rd) = std::fs::read_dir(format!("/proc/{}/task", pid)) {
        for t in rd.flatten() {
            if let Ok(n) = t.file_name().to_string_lossy().parse::<i32>() {
                v.push(n);
            }
        }
    }
    v.sort();
    v
}

/// (syscall nr, args) of a thread blocked in a system call; None if running / not in a syscall.
pub fn thread_syscall(pid: i32, tid: i32) -> Option<(i64, [u64; 6])> {
    let s = std::fs::read_to_string(format!("/proc/{}/task/{}/syscall", pid, tid)).ok()?;
    let mut it = s.split_whitespace();
    let nr: i64 = it.next()?.parse().ok()?;
    if nr < 0 {
        return None;
    }
    let mut a = [0u64; 6];
    for x in a.iter_mut() {
        let w = it.next()?;
        *x = u64::from_str_radix(w.trim_start_matches("0x"), 16).ok()?;
    }
    Some((nr, a))
}

#[derive(Clone, Debug, PartialEq, Eq)]
pub enum Block {
    ReadPipe(u64),
    WritePipe(u64),
    WaitPid(i32),
    WaitAny,
    Poll(Vec<(u64, bool)>), // (pipe inode, waiting-for-readable?)
    Zombie,
    /// a scripted child that has declared (comm = "vforever") that it loops for ever, ignoring errors, and that
    /// nothing it does can be observed any more: it never exits, closes or delivers anything unless signalled
    Forever,
    /// a reporting child that holds (comm = "vheld") until the monitor ends it, which happens only after the call
    /// under observation has returned: it waits for the subject
    Held,
    Not(String),
}

#[derive(Clone, Debug, PartialEq, Eq)]
pub struct Node {
    pub pid: i32,
    pub tid: i32,
    pub what: String,
    pub block: Block,
}

fn fd_target(pid: i32, fd: i32) -> String {
    std::fs::read_link(format!("/proc/{}/fd/{}", pid, fd)).map(|p| p.to_string_lossy().into_owned()).unwrap_or_default()
}

fn classify(pid: i32, tid: i32, own: bool) -> Node {
    let mk = |what: String, block: Block| Node { pid, tid, what, block };
    match proc_state(pid) {
        None => return mk("gone".into(), Block::Not("gone".into())),
        Some('Z') => return mk("zombie".into(), Block::Zombie),
        _ => {}
    }
    let comm = if own { String::new() } else { std::fs::read_to_string(format!("/proc/{}/comm", pid)).map(|c| c.trim().to_string()).unwrap_or_default() };
    if comm == "vheld" {
        return mk("runs the requested program, which stays until the monitored call has returned".into(), Block::Held);
    }
    if comm == "vatexit" {
        return mk("a forked copy of the caller that runs the caller's exit handlers and waits there for a lock whose owner does not exist in the copy".into(), Block::Forever);
    }
    if comm == "vforever" {
        let blk = std::fs::read_to_string(format!("/proc/{}/status", pid)).ok().and_then(|s| s.lines().find(|l| l.starts_with("SigBlk:")).map(|l| l.to_string())).unwrap_or_default();
        return mk(format!("loops for ever ignoring EPIPE, ends only by a signal ({})", blk.replace('\t', " ")), Block::Forever);
    }
    if own && crate::interpose::in_empty_wait(tid) {
        return mk("poll(-1) on an empty descriptor set: no descriptor and no timeout can end it".into(), Block::Forever);
    }
    let (nr, a) = match thread_syscall(pid, tid) {
        Some(x) => x,
        None => return mk("running".into(), Block::Not("running".into())),
    };
    match nr {
        0 | 17 | 19 => {
            // read, pread64, readv
            let t = fd_target(pid, a[0] as i32);
            match pipe_ino(&t) {
                Some(i) => mk(format!("read(fd {} = {})", a[0] as i32, t), Block::ReadPipe(i)),
                None => mk(format!("read(fd {} = {})", a[0] as i32, t), Block::Not("read on non-pipe".into())),
            }
        }
        1 | 18 | 20 => {
            let t = fd_target(pid, a[0] as i32);
            match pipe_ino(&t) {
                Some(i) => mk(format!("write(fd {} = {})", a[0] as i32, t), Block::WritePipe(i)),
                None => mk(format!("write(fd {} = {})", a[0] as i32, t), Block::Not("write on non-pipe".into())),
            }
        }
        61 => {
            // wait4(pid, status, options, ru): pid and options are 32-bit
            let p = a[0] as u32 as i32;
            let opt = a[2] as u32 as i32;
            if opt & libc::WNOHANG != 0 {
                mk("wait4(WNOHANG)".into(), Block::Not("nonblocking wait".into()))
            } else if p > 0 {
                mk(format!("wait4({})", p), Block::WaitPid(p))
            } else {
                mk(format!("wait4({})", p), Block::WaitAny)
            }
        }
        247 => {
            // waitid(idtype, id, info, options)
            let idt = a[0] as u32 as i32;
            let id = a[1] as u32 as i32;
            let opt = a[3] as u32 as i32;
            if opt & libc::WNOHANG != 0 {
                mk("waitid(WNOHANG)".into(), Block::Not("nonblocking wait".into()))
            } else if idt == libc::P_PID as i32 {
                mk(format!("waitid(P_PID,{})", id), Block::WaitPid(id))
            } else {
                mk("waitid(any)".into(), Block::WaitAny)
            }
        }
        7 | 271 => {
            // poll(fds, n, timeout) / ppoll(fds, n, ts, mask)
            let infinite = if nr == 7 { (a[2] as u32 as i32) < 0 } else { a[2] == 0 };
            if !infinite {
                return mk("poll(finite)".into(), Block::Not("finite poll".into()));
            }
            if !own {
                return mk("poll(-1)".into(), Block::Not("poll in another process (not analysed)".into()));
            }
            // same address space: read the pollfd array directly
            let n = (a[1] as usize).min(16);
            let mut set = vec![];
            let mut desc = String::from("poll(-1:");
            let mut unknown = false;
            for i in 0..n {
                let p = unsafe { std::ptr::read_volatile((a[0] as *const libc::pollfd).add(i)) };
                if p.fd < 0 {
                    continue;
                }
                let t = fd_target(pid, p.fd);
                desc.push_str(&format!(" fd {}={} ev={:#x}", p.fd, t, p.events));
                match pipe_ino(&t) {
                    Some(ino) => {
                        if p.events & libc::POLLIN != 0 {
                            set.push((ino, true));
                        }
                        if p.events & libc::POLLOUT != 0 {
                            set.push((ino, false));
                        }
                    }
                    None => unknown = true,
                }
            }
            desc.push(')');
            if unknown || set.is_empty() {
                mk(desc, Block::Not("poll on non-pipe".into()))
            } else {
                mk(desc, Block::Poll(set))
            }
        }
        202 if !own && threads_of(pid).len() == 1 && (a[1] & 128) != 0 && matches!(a[1] & 127, 0 | 9 | 6) && a[3] == 0 => {
            // futex(FUTEX_WAIT | FUTEX_PRIVATE, no timeout) in a process that has a single thread: only another thread of
            // the same process could ever wake it, and there is none (a forked child waiting for a lock that some other
            // thread of its parent held at the moment of the fork)
            mk("waits on a process-private lock that no thread of this single-threaded process can release".into(), Block::Forever)
        }
        _ => mk(format!("syscall {}", nr), Block::Not(format!("syscall {} (not a pipe/wait dependency)", nr))),
    }
}

#[derive(Clone, Debug)]
pub struct Certificate {
    pub nodes: Vec<Node>,             // the deadlocked set
    pub others: Vec<Node>,            // the rest of the picture
    pub holders: Vec<String>,         // who holds which end of the pipes involved
}

impl Certificate {
    pub fn describe(&self) -> Vec<String> {
        let mut v = vec![];
        for n in &self.nodes {
            v.push(format!("DEADLOCKED pid {} tid {} [{}]: {}", n.pid, n.tid, proc_cmdline(n.pid), n.what));
        }
        for n in &self.others {
            v.push(format!("other pid {} tid {}: {}", n.pid, n.tid, n.what));
        }
        for h in &self.holders {
            v.push(h.clone());
        }
        v
    }
    /// Shape for signatures: the syscalls of the cycle, subject first.
    pub fn shape(&self) -> String {
        self.nodes
            .iter()
            .map(|n| match &n.block {
                Block::ReadPipe(_) => "read",
                Block::WritePipe(_) => "write",
                Block::WaitPid(_) => "wait",
                Block::WaitAny => "waitany",
                Block::Poll(_) => "poll",
                Block::Forever => "cannot-proceed-ever",
                Block::Held => "program-that-runs-until-the-call-returns",
                _ => "?",
            })
            .collect::<Vec<_>>()
            .join(">")
    }
}

/// Build the wait-for graph for the given subject threads of this process and all its descendants;
/// returns a certificate if a subject thread is in the greatest set of mutually blocked nodes.
pub fn analyse(subject_tids: &[i32]) -> Option<Certificate> {
    // (only the watchdog thread analyses; while a case holds the lock - it keeps low descriptor numbers free and nobody
    // else may open anything - there is no analysis, and the wall-clock watchdog alone ends a hang, as inconclusive)
    let _g = try_proc_guard()?;
    let me = self_pid();
    let desc = descendants(me);
    let mut nodes: Vec<Node> = vec![];
    for &t in subject_tids {
        nodes.push(classify(me, t, true));
    }
    for &p in &desc {
        for t in threads_of(p) {
            nodes.push(classify(p, t, false));
        }
    }
    // pipes of interest
    let mut pipes: BTreeSet<u64> = BTreeSet::new();
    for n in &nodes {
        match &n.block {
            Block::ReadPipe(i) | Block::WritePipe(i) => {
                pipes.insert(*i);
            }
            Block::Poll(s) => {
                for (i, _) in s {
                    pipes.insert(*i);
                }
            }
            _ => {}
        }
    }
    // holders: pipe -> (readers pids, writers pids), over every process of the sandbox
    let mut readers: BTreeMap<u64, BTreeSet<i32>> = BTreeMap::new();
    let mut writers: BTreeMap<u64, BTreeSet<i32>> = BTreeMap::new();
    let mut holders_desc = vec![];
    if !pipes.is_empty() {
        if let Ok(rd) = std::fs::read_dir("/proc") {
            for e in rd.flatten() {
                let pid: i32 = match e.file_name().to_string_lossy().parse() {
                    Ok(p) => p,
                    Err(_) => continue,
                };
                for f in fd_table(pid) {
                    if let Some(ino) = f.pipe_ino() {
                        if pipes.contains(&ino) {
                            if f.can_read() {
                                readers.entry(ino).or_default().insert(pid);
                            }
                            if f.can_write() {
                                writers.entry(ino).or_default().insert(pid);
                            }
                            holders_desc.push(format!(
                                "pipe:[{}] {} end held by pid {} fd {}{}",
                                ino,
                                if f.can_write() { "write" } else { "read" },
                                pid,
                                f.fd,
                                if pid == me { " (the monitored process itself)" } else { "" }
                            ));
                        }
                    }
                }
            }
        }
    }
    let in_graph: BTreeSet<i32> = std::iter::once(me).chain(desc.iter().cloned()).collect();
    // greatest fixpoint
    let blocked = |n: &Node| !matches!(n.block, Block::Not(_) | Block::Zombie);
    let mut dead: Vec<bool> = nodes.iter().map(|n| blocked(n)).collect();
    let kids: BTreeMap<i32, Vec<i32>> = in_graph.iter().map(|&p| (p, children_of(p))).collect();
    loop {
        let mut changed = false;
        for i in 0..nodes.len() {
            if !dead[i] {
                continue;
            }
            // can some process outside the dead set wake node i?
            let proc_alive_outside = |pid: i32, dead: &Vec<bool>| -> bool {
                if !in_graph.contains(&pid) {
                    return true; // a process we do not analyse: assume it can act
                }
                // any thread of pid that is a node and not dead
                let mut any_node = false;
                for (j, m) in nodes.iter().enumerate() {
                    if m.pid == pid {
                        any_node = true;
                        if !dead[j] && !matches!(m.block, Block::Zombie) && !matches!(&m.block, Block::Not(s) if s == "gone") {
                            return true;
                        }
                    }
                }
                if !any_node && pid != me {
                    return true;
                }
                false
            };
            let pipe_wakers = |ino: u64, want_writer: bool, dead: &Vec<bool>| -> Option<bool> {
                let hs = if want_writer { writers.get(&ino) } else { readers.get(&ino) };
                match hs {
                    None => None, // nobody holds the other end: the call is about to return
                    Some(set) => Some(set.iter().any(|&p| proc_alive_outside(p, dead))),
                }
            };
            let wake = match &nodes[i].block {
                Block::ReadPipe(ino) => pipe_wakers(*ino, true, &dead).unwrap_or(true),
                Block::WritePipe(ino) => pipe_wakers(*ino, false, &dead).unwrap_or(true),
                Block::Poll(set) => set.iter().any(|(ino, rd)| pipe_wakers(*ino, *rd, &dead).unwrap_or(true)),
                Block::WaitPid(p) => match proc_state(*p) {
                    None | Some('Z') => true,
                    _ => proc_alive_outside(*p, &dead),
                },
                Block::WaitAny => {
                    let ch = kids.get(&nodes[i].pid).cloned().unwrap_or_default();
                    ch.is_empty() || ch.iter().any(|&c| matches!(proc_state(c), None | Some('Z')) || proc_alive_outside(c, &dead))
                }
                Block::Forever => false,
                // ended by the monitor once the call has returned: only a subject thread that can still make progress wakes it
                Block::Held => nodes.iter().enumerate().any(|(j, m)| m.pid == me && !dead[j]),
                _ => true,
            };
            if wake {
                dead[i] = false;
                changed = true;
            }
        }
        if !changed {
            break;
        }
    }
    let subj_dead = nodes.iter().enumerate().any(|(i, n)| n.pid == me && dead[i]);
    if !subj_dead {
        return None;
    }
    let mut dn = vec![];
    let mut on = vec![];
    for (i, n) in nodes.into_iter().enumerate() {
        if dead[i] {
            dn.push(n);
        } else {
            on.push(n);
        }
    }
    Some(Certificate { nodes: dn, others: on, holders: holders_desc })
}

/// Kill (SIGKILL) every descendant of this process; used to end a certified deadlock and at case end.
pub fn kill_descendants() -> usize {
    let me = self_pid();
    let mut n = 0;
    for p in descendants(me) {
        if proc_state(p) != Some('Z') {
            unsafe {
                crate::interpose::real_kill(p, libc::SIGKILL);
            }
            n += 1;
        }
    }
    n
}

/// Reap every remaining child (zombies of orphans adopted through the subreaper flag, leftovers of a case).
pub fn reap_all() -> Vec<(i32, i32)> {
    let mut v = vec![];
    loop {
        let mut st = 0;
        let r = unsafe { crate::interpose::real_waitpid(-1, &mut st, libc::WNOHANG) };
        if r <= 0 {
            break;
        }
        v.push((r, st));
    }
    v
}
