// Helpers around the scripted child: report parsing.
use std::collections::BTreeMap;
use std::path::Path;

#[derive(Clone, Debug, Default)]
pub struct ChildFd {
    pub fd: i32,
    pub fdflags: i32,
    pub flflags: i32,
    pub dev: u64,
    pub ino: u64,
    pub mode: u64,
    pub off: i64,
    pub target: String,
}

impl ChildFd {
    pub fn pipe_ino(&self) -> Option<u64> {
        crate::inspect::pipe_ino(&self.target)
    }
    pub fn writable(&self) -> bool {
        let m = self.flflags & libc::O_ACCMODE;
        m == libc::O_WRONLY || m == libc::O_RDWR
    }
}

#[derive(Clone, Debug, Default)]
pub struct Report {
    pub argv: Vec<Vec<u8>>,
    pub env: Vec<Vec<u8>>,
    pub cwd: Vec<u8>,
    pub exe: Vec<u8>,
    pub uid: u32,
    pub euid: u32,
    pub gid: u32,
    pub egid: u32,
    pub pid: i32,
    pub ppid: i32,
    pub pgid: i32,
    pub sid: i32,
    pub groups: Vec<u32>,
    pub sigblk: u64,
    pub sigign: u64,
    pub sigcgt: u64,
    pub sigpipe: String,
    pub fds: Vec<ChildFd>,
    pub fds2: Vec<ChildFd>,
    pub probe: BTreeMap<i32, i64>,
    pub stdin: Option<Vec<u8>>,
    pub complete: bool,
}

fn parse_fd(v: &[u8]) -> Option<ChildFd> {
    let s = String::from_utf8_lossy(v).into_owned();
    let mut it = s.splitn(8, ' ');
    Some(ChildFd {
        fd: it.next()?.parse().ok()?,
        fdflags: it.next()?.parse().ok()?,
        flflags: it.next()?.parse().ok()?,
        dev: it.next()?.parse().ok()?,
        ino: it.next()?.parse().ok()?,
        mode: it.next()?.parse().ok()?,
        off: it.next()?.parse().ok()?,
        target: it.next()?.to_string(),
    })
}

pub fn parse_report(data: &[u8]) -> Report {
    let mut r = Report::default();
    let mut i = 0;
    while i < data.len() {
        let nl = match data[i..].iter().position(|&c| c == b'\n') {
            Some(p) => i + p,
            None => break,
        };
        let head = String::from_utf8_lossy(&data[i..nl]).into_owned();
        let mut hp = head.split(' ');
        let key = hp.next().unwrap_or("").to_string();
        let len: usize = hp.next().and_then(|x| x.parse().ok()).unwrap_or(0);
        let vs = nl + 1;
        if vs + len > data.len() {
            break;
        }
        let val = &data[vs..vs + len];
        i = vs + len + 1;
        let sval = String::from_utf8_lossy(val).into_owned();
        match key.as_str() {
            "arg" => r.argv.push(val.to_vec()),
            "env" => r.env.push(val.to_vec()),
            "cwd" => r.cwd = val.to_vec(),
            "exe" => r.exe = val.to_vec(),
            "ids" => {
                let n: Vec<i64> = sval.split(' ').filter_map(|x| x.parse().ok()).collect();
                if n.len() == 8 {
                    r.uid = n[0] as u32;
                    r.euid = n[1] as u32;
                    r.gid = n[2] as u32;
                    r.egid = n[3] as u32;
                    r.pid = n[4] as i32;
                    r.ppid = n[5] as i32;
                    r.pgid = n[6] as i32;
                    r.sid = n[7] as i32;
                }
            }
            "groups" => r.groups = sval.split_whitespace().filter_map(|x| x.parse().ok()).collect(),
            "SigBlk" => r.sigblk = u64::from_str_radix(&sval, 16).unwrap_or(u64::MAX),
            "SigIgn" => r.sigign = u64::from_str_radix(&sval, 16).unwrap_or(u64::MAX),
            "SigCgt" => r.sigcgt = u64::from_str_radix(&sval, 16).unwrap_or(u64::MAX),
            "sigpipe" => r.sigpipe = sval,
            "fd" => {
                if let Some(f) = parse_fd(val) {
                    r.fds.push(f);
                }
            }
            "fd2" => {
                if let Some(f) = parse_fd(val) {
                    r.fds2.push(f);
                }
            }
            "probe" => {
                let n: Vec<i64> = sval.split(' ').filter_map(|x| x.parse().ok()).collect();
                if n.len() == 2 {
                    r.probe.insert(n[0] as i32, n[1]);
                }
            }
            "stdin" => r.stdin = Some(val.to_vec()),
            "end" => r.complete = true,
            _ => {}
        }
    }
    r
}

/// Wait (real time, bounded) until the report file exists, then parse it.  None = child never reported.
pub fn wait_report(path: &Path, max_ms: u64) -> Option<Report> {
    let t0 = std::time::Instant::now();
    loop {
        if let Ok(d) = std::fs::read(path) {
            let r = parse_report(&d);
            if r.complete {
                return Some(r);
            }
        }
        if t0.elapsed().as_millis() as u64 > max_ms {
            return None;
        }
        std::thread::sleep(std::time::Duration::from_micros(300));
    }
}

/// Lines of an io-script / stage report.
pub fn read_lines(path: &Path) -> Vec<String> {
    std::fs::read_to_string(path).map(|s| s.lines().map(|l| l.to_string()).collect()).unwrap_or_default()
}
