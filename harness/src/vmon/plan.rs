// Fault and delay plans consulted by the interposers.
// Plain statics: a forked child gets a private copy, so child-scope
// counters start at zero in every child.  "Fired" flags live in the shared
// log region so that the parent can see that a child-side rule fired.

use crate::ilog::{self, k};
use std::sync::atomic::{AtomicI32, AtomicI64, AtomicU32, AtomicU64, AtomicUsize, Ordering::SeqCst};

pub const ACT_FAIL: u8 = 1; // val = errno
pub const ACT_SHORT: u8 = 2; // val = max count (0 = random 1..count-1)
pub const ACT_DELAY_BEFORE: u8 = 3; // val = µs (prob applies)
pub const ACT_DELAY_AFTER: u8 = 4; // val = µs
pub const ACT_PIPE_SZ: u8 = 5; // val = capacity for pipes created (kind PIPE/PIPE2); fd = which end-set (unused)

pub const SCOPE_PARENT: u8 = 0;
pub const SCOPE_CHILD: u8 = 1;
pub const SCOPE_ANY: u8 = 2;

#[derive(Clone, Copy, Debug)]
pub struct Rule {
    pub kind: u16,
    pub scope: u8,
    pub nth: u32, // 1-based index of the call of this kind in this scope; 0 = every call
    pub fd: i32,  // -1 = any, else must equal the call's first argument
    pub act: u8,
    pub val: i64,
    pub prob: u32, // per mille (1000 = always)
}

impl Rule {
    pub const fn none() -> Rule {
        Rule { kind: 0, scope: 0, nth: 0, fd: -1, act: 0, val: 0, prob: 1000 }
    }
    pub fn describe(&self) -> String {
        format!(
            "{}:{}#{}{} act={} val={} p={}",
            match self.scope { 0 => "parent", 1 => "child", _ => "any" },
            k::name(self.kind), self.nth,
            if self.fd >= 0 { format!(" fd={}", self.fd) } else { String::new() },
            self.act, self.val, self.prob
        )
    }
}

const MAXR: usize = 32;
static mut RULES: [Rule; MAXR] = [Rule::none(); MAXR];
static NR: AtomicUsize = AtomicUsize::new(0);
static CNT_PARENT: [AtomicU32; k::MAX] = [const { AtomicU32::new(0) }; k::MAX];
static CNT_CHILD: [AtomicU32; k::MAX] = [const { AtomicU32::new(0) }; k::MAX];
static RSTATE: AtomicU64 = AtomicU64::new(0x9E37_79B9_7F4A_7C15);

// global op budget for the subject (spin / runaway guard). < 0 = unlimited
pub static OPS_BUDGET: AtomicI64 = AtomicI64::new(-1);
pub static BUDGET_HIT: AtomicU32 = AtomicU32::new(0);
pub static OPS_COUNT: AtomicU64 = AtomicU64::new(0);
pub static BYTES_MOVED: AtomicU64 = AtomicU64::new(0);
pub const SPIN_SLACK: u64 = 200_000;
pub const ABORT_ERRNO: i32 = 131; // ENOTRECOVERABLE: reserved for the monitor

// post-deadline poll counter (C04)
pub static DEADLINE_VT: AtomicI64 = AtomicI64::new(0);
pub static POLLS_AFTER_DEADLINE: AtomicU32 = AtomicU32::new(0);
pub static MAX_POLLS_AFTER_DEADLINE: AtomicI32 = AtomicI32::new(-1);

pub fn clear() {
    NR.store(0, SeqCst);
    for c in CNT_PARENT.iter() {
        c.store(0, SeqCst);
    }
    for c in CNT_CHILD.iter() {
        c.store(0, SeqCst);
    }
    OPS_BUDGET.store(-1, SeqCst);
    BUDGET_HIT.store(0, SeqCst);
    OPS_COUNT.store(0, SeqCst);
    BYTES_MOVED.store(0, SeqCst);
    DEADLINE_VT.store(0, SeqCst);
    POLLS_AFTER_DEADLINE.store(0, SeqCst);
    MAX_POLLS_AFTER_DEADLINE.store(-1, SeqCst);
}

pub fn seed(s: u64) {
    RSTATE.store(s | 1, SeqCst);
}

pub fn add(r: Rule) -> usize {
    let i = NR.load(SeqCst);
    assert!(i < MAXR);
    unsafe {
        RULES[i] = r;
    }
    NR.store(i + 1, SeqCst);
    i
}

pub fn fired(i: usize) -> u32 {
    ilog::shared().map(|s| s.plan_fired[i].load(SeqCst)).unwrap_or(0)
}

pub fn count(scope: u8, kind: u16) -> u32 {
    if scope == SCOPE_CHILD { CNT_CHILD[kind as usize].load(SeqCst) } else { CNT_PARENT[kind as usize].load(SeqCst) }
}

fn rnd() -> u64 {
    let mut x = RSTATE.load(SeqCst);
    x ^= x << 13;
    x ^= x >> 7;
    x ^= x << 17;
    RSTATE.store(x, SeqCst);
    x
}

#[derive(Clone, Copy, Default)]
pub struct Decision {
    pub fail: i32,        // errno to inject, 0 = none
    pub short: usize,     // new count, 0 = unchanged
    pub delay_before: u64, // µs
    pub delay_after: u64,
    pub pipe_sz: i64,
}

/// Called by an interposer before the real call.  `a0` is the first argument (fd), `count` the byte count for read/write.
pub fn decide(kind: u16, a0: i64, count: usize) -> Decision {
    let mut d = Decision::default();
    let child = ilog::IN_CHILD.load(SeqCst);
    let n = if child { CNT_CHILD[kind as usize].fetch_add(1, SeqCst) + 1 } else { CNT_PARENT[kind as usize].fetch_add(1, SeqCst) + 1 };
    if kind == k::POLL || kind == k::READ || kind == k::WRITE || kind == k::PPOLL {
        // spin guard (armed when OPS_BUDGET >= 0): in a correct exchange every round moves at least one byte, retires a
        // stream or fails, so the number of calls stays within a small multiple of the bytes moved so far
        if !child && OPS_BUDGET.load(SeqCst) >= 0 {
            let ops = OPS_COUNT.fetch_add(1, SeqCst) + 1;
            let bytes = BYTES_MOVED.load(SeqCst);
            if ops > 8 * bytes + SPIN_SLACK {
                BUDGET_HIT.fetch_add(1, SeqCst);
                d.fail = ABORT_ERRNO;
                return d;
            }
        }
        if kind == k::POLL {
            let dl = DEADLINE_VT.load(SeqCst);
            if dl != 0 && crate::vclock::now_ns() as i64 > dl {
                let c = POLLS_AFTER_DEADLINE.fetch_add(1, SeqCst) + 1;
                let m = MAX_POLLS_AFTER_DEADLINE.load(SeqCst);
                if m >= 0 && c as i32 > m {
                    d.fail = ABORT_ERRNO;
                    return d;
                }
            }
        }
    }
    let nr = NR.load(SeqCst);
    for i in 0..nr {
        let r = unsafe { RULES[i] };
        if r.kind != kind {
            continue;
        }
        if r.scope != SCOPE_ANY && (r.scope == SCOPE_CHILD) != child {
            continue;
        }
        // prob >= 2000: "from the nth call on" (a resource that is exhausted stays exhausted)
        if r.prob >= 2000 {
            if n < r.nth {
                continue;
            }
        } else if r.nth != 0 && r.nth != n {
            continue;
        }
        if r.fd >= 0 && r.fd as i64 != a0 {
            continue;
        }
        if r.prob < 1000 && (rnd() % 1000) as u32 >= r.prob {
            continue;
        }
        let mut fire = true;
        match r.act {
            ACT_FAIL => {
                d.fail = r.val as i32;
                // a caller that answers a persistent failure by trying again and again is ended after 24 attempts
                if r.prob >= 2000 && fired(i) >= 24 {
                    BUDGET_HIT.fetch_add(1, SeqCst);
                    d.fail = ABORT_ERRNO;
                }
            }
            ACT_SHORT => {
                if count > 1 {
                    let m = if r.val > 0 { r.val as usize } else { 1 + (rnd() as usize % (count - 1)) };
                    if m < count {
                        d.short = m;
                    } else {
                        fire = false;
                    }
                } else {
                    fire = false;
                }
            }
            ACT_DELAY_BEFORE => d.delay_before += if r.val >= 0 { r.val as u64 } else { rnd() % ((-r.val) as u64 + 1) },
            ACT_DELAY_AFTER => d.delay_after += if r.val >= 0 { r.val as u64 } else { rnd() % ((-r.val) as u64 + 1) },
            ACT_PIPE_SZ => d.pipe_sz = r.val,
            _ => fire = false,
        }
        if fire {
            if let Some(s) = ilog::shared() {
                s.plan_fired[i].fetch_add(1, SeqCst);
            }
        }
    }
    d
}
