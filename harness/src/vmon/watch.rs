// Watchdog / inspector thread: certifies deadlocks (never by wall clock
// alone) and ends them so that the worker can go on.

use crate::ilog;
use crate::inspect::{self, Certificate};
use std::sync::atomic::{AtomicBool, AtomicU64, Ordering::SeqCst};
use std::sync::Mutex;
use std::time::{Duration, Instant};

static WATCHING: AtomicBool = AtomicBool::new(false);
static STARTED: AtomicBool = AtomicBool::new(false);
static CERT: Mutex<Option<Certificate>> = Mutex::new(None);
static HARD_TIMEOUT: AtomicBool = AtomicBool::new(false);
pub static SILENCE_MS: AtomicU64 = AtomicU64::new(250);
pub static HARD_MS: AtomicU64 = AtomicU64::new(60_000);
pub static ANALYSES: AtomicU64 = AtomicU64::new(0);
pub static CERTS: AtomicU64 = AtomicU64::new(0);

pub fn start() {
    if STARTED.swap(true, SeqCst) {
        return;
    }
    std::thread::Builder::new().name("vmon-watch".into()).spawn(run).expect("watch thread");
}

pub fn begin() {
    *CERT.lock().unwrap_or_else(|e| e.into_inner()) = None;
    HARD_TIMEOUT.store(false, SeqCst);
    WATCHING.store(true, SeqCst);
}

pub fn end() -> (Option<Certificate>, bool) {
    WATCHING.store(false, SeqCst);
    let c = CERT.lock().unwrap_or_else(|e| e.into_inner()).take();
    (c, HARD_TIMEOUT.load(SeqCst))
}

/// bumped when a verdict (certificate or hard timeout) is recorded: waits that nothing else could end are released
pub static RELEASE_GEN: std::sync::atomic::AtomicU64 = std::sync::atomic::AtomicU64::new(0);

fn same(a: &Certificate, b: &Certificate) -> bool {
    a.nodes == b.nodes
}

/// Replace this process' own descriptors that refer to pipes of the certificate by /dev/null,
/// so that a peer (or the subject itself) blocked on the other end wakes up.
fn release_own_ends(c: &Certificate) {
    let mut inos = vec![];
    for n in &c.nodes {
        match &n.block {
            inspect::Block::ReadPipe(i) | inspect::Block::WritePipe(i) => inos.push(*i),
            inspect::Block::Poll(s) => inos.extend(s.iter().map(|x| x.0)),
            _ => {}
        }
    }
    let me = inspect::self_pid();
    unsafe {
        let null = libc::syscall(libc::SYS_open, b"/dev/null\0".as_ptr(), libc::O_RDWR | libc::O_CLOEXEC, 0) as i32;
        if null < 0 {
            return;
        }
        for f in inspect::fd_table(me) {
            if let Some(i) = f.pipe_ino() {
                if inos.contains(&i) && f.fd != null {
                    libc::syscall(libc::SYS_dup3, null, f.fd, libc::O_CLOEXEC);
                }
            }
        }
        crate::interpose::real_close(null);
    }
}

fn run() {
    let mut last_len = usize::MAX;
    let mut last_change = Instant::now();
    let mut case_start = Instant::now();
    let mut was_watching = false;
    let mut candidate: Option<(Certificate, Instant)> = None;
    let mut certified_at: Option<Instant> = None;
    let mut cpu_at_change: Option<(Vec<i32>, u64)> = None;
    loop {
        std::thread::sleep(Duration::from_millis(20));
        let w = WATCHING.load(SeqCst);
        if !w {
            was_watching = false;
            candidate = None;
            certified_at = None;
            continue;
        }
        let now = Instant::now();
        if !was_watching {
            was_watching = true;
            case_start = now;
            last_len = usize::MAX;
            last_change = now;
            cpu_at_change = None;
        }
        let len = ilog::len();
        // CPU time of the subject thread(s); only meaningful while they are registered (Some)
        let cpu_now = subject_cpu_ticks();
        if len != last_len {
            last_len = len;
            last_change = now;
            candidate = None;
            cpu_at_change = cpu_now;
            // the call moved on after a certified deadlock was broken (its descendants were killed): should it get stuck
            // again later in the same call, that is looked at afresh
            if let Some(t) = certified_at {
                if now > t {
                    certified_at = None;
                }
            }
        } else if !ilog::overflowed() {
            // no event at all: is the subject nevertheless burning CPU?  (3 s of CPU time without one system call,
            // measured between two samples that both saw the same registered subject threads)
            match (&cpu_at_change, &cpu_now) {
                (Some((tids0, t0)), Some((tids1, t1))) if tids0 == tids1 => {
                    let ticks = t1.saturating_sub(*t0);
                    let hz = unsafe { libc::sysconf(libc::_SC_CLK_TCK) }.max(1) as u64;
                    if ticks >= 3 * hz {
                        crate::run::fatal_spin(ticks as f64 / hz as f64);
                    }
                }
                _ => cpu_at_change = cpu_now.clone(),
            }
        }
        if let Some(t) = certified_at {
            // a certified deadlock was broken by killing the descendants; if the subject is still stuck, release our own pipe ends
            if now.duration_since(t) > Duration::from_millis(300) {
                let c = CERT.lock().unwrap_or_else(|e| e.into_inner()).clone();
                if let Some(c) = c {
                    let _g = inspect::try_proc_guard();
                    release_own_ends(&c);
                }
                certified_at = Some(now + Duration::from_secs(3600));
            }
        } else if now.duration_since(last_change) >= Duration::from_millis(SILENCE_MS.load(SeqCst)) {
            ANALYSES.fetch_add(1, SeqCst);
            let tids = ilog::subject_tids();
            match inspect::analyse(&tids) {
                Some(c) => {
                    let confirmed = match &candidate {
                        Some((prev, t)) => same(prev, &c) && now.duration_since(*t) >= Duration::from_millis(150),
                        None => false,
                    };
                    if confirmed && ilog::len() == last_len {
                        CERTS.fetch_add(1, SeqCst);
                        *CERT.lock().unwrap_or_else(|e| e.into_inner()) = Some(c);
                        inspect::kill_descendants();
                        RELEASE_GEN.fetch_add(1, SeqCst);
                        certified_at = Some(Instant::now());
                        candidate = None;
                    } else if candidate.as_ref().map(|(p, _)| !same(p, &c)).unwrap_or(true) {
                        candidate = Some((c, now));
                    }
                }
                None => candidate = None,
            }
        }
        if now.duration_since(case_start) >= Duration::from_millis(HARD_MS.load(SeqCst)) && !HARD_TIMEOUT.load(SeqCst) {
            // generous wall-clock watchdog: inconclusive, never a verdict
            HARD_TIMEOUT.store(true, SeqCst);
            crate::run::CASE_TAINTED.store(true, SeqCst);
            inspect::kill_descendants();
            RELEASE_GEN.fetch_add(1, SeqCst);
            case_start = now; // give it another period before giving up completely
        } else if HARD_TIMEOUT.load(SeqCst) && now.duration_since(case_start) >= Duration::from_millis(10_000) {
            crate::run::fatal_inconclusive("case did not end after its descendants were killed (no deadlock certificate)");
        }
    }
}

/// (registered subject threads, their utime+stime in clock ticks); None while no subject thread is registered
fn subject_cpu_ticks() -> Option<(Vec<i32>, u64)> {
    let tids = ilog::subject_tids();
    if tids.is_empty() {
        return None;
    }
    // (opening /proc files creates transient descriptors: never while a descriptor audit is in progress)
    let _g = inspect::try_proc_guard()?;
    let mut total = 0;
    for tid in &tids {
        let s = std::fs::read_to_string(format!("/proc/self/task/{}/stat", tid)).ok()?;
        let r = s.rfind(')')?;
        let f: Vec<&str> = s[r + 1..].split_whitespace().collect();
        // fields after the command name: state(0) ... utime is the 12th, stime the 13th
        if f.len() <= 12 {
            return None;
        }
        total += f[11].parse::<u64>().ok()? + f[12].parse::<u64>().ok()?;
    }
    Some((tids, total))
}
