// C07 — Popen exists iff the program started; failed launches leave nothing behind.
// Fault enumeration: a dry run counts every parent-side descriptor/fork call and every
// child-side step of a configuration; then each one is failed in turn with several errnos.

use crate::ilog::{self, k, Ev};
use crate::inspect;
use crate::json::J;
use crate::plan::{self, Rule};
use crate::run::{self, Ctx};
use crate::spawn;
use std::ffi::OsString;
use std::path::{Path, PathBuf};
use std::sync::atomic::Ordering::SeqCst;
use subprocess::{Popen, PopenConfig, PopenError, Redirection};

#[derive(Clone, Debug)]
pub struct Cfg {
    pub sin: u8, // 0 none, 1 pipe, 2 file
    pub sout: u8, // 0 none, 1 pipe, 2 file, 3 merge
    pub serr: u8,
    pub detached: bool,
    pub cwd: bool,
    pub setuid: bool,
    pub setgid: bool,
    pub setpgid: bool,
    pub exe_override: bool,
    pub path_search: bool,
    pub env: bool,
    /// bit s set: the parent has closed its own standard descriptor s, so that number is free when the launch begins
    pub free_std: u8,
}

impl Cfg {
    pub fn name(&self) -> String {
        let s = |x: u8| ["N", "P", "F", "M"][x as usize];
        format!(
            "{}{}{}{}{}{}{}{}{}{}{}{}",
            s(self.sin), s(self.sout), s(self.serr),
            if self.free_std != 0 { format!("+parent-fds-free:{}", (0..3).filter(|b| self.free_std & (1 << b) != 0).map(|b| b.to_string()).collect::<Vec<_>>().join(",")) } else { String::new() },
            if self.detached { "+det" } else { "" },
            if self.cwd { "+cwd" } else { "" },
            if self.setuid { "+uid" } else { "" },
            if self.setgid { "+gid" } else { "" },
            if self.setpgid { "+pgid" } else { "" },
            if self.exe_override { "+exe" } else { "" },
            if self.path_search { "+path" } else { "" },
            if self.env { "+env" } else { "" },
        )
    }
}

fn configs(thorough: bool) -> Vec<Cfg> {
    let base = Cfg { sin: 0, sout: 0, serr: 0, detached: false, cwd: false, setuid: false, setgid: false, setpgid: false, exe_override: false, path_search: false, env: false, free_std: 0 };
    let mut v = vec![];
    let streams: Vec<(u8, u8, u8)> = if thorough {
        vec![(0, 0, 0), (1, 1, 1), (1, 0, 0), (0, 1, 0), (0, 0, 1), (2, 2, 2), (0, 1, 3), (0, 3, 1), (1, 2, 1), (2, 1, 0), (0, 3, 0), (0, 0, 3), (1, 1, 3)]
    } else {
        vec![(0, 0, 0), (1, 1, 1), (0, 1, 3), (2, 2, 2), (1, 0, 0), (0, 3, 0), (0, 0, 3)]
    };
    for (a, b, c) in &streams {
        for det in [false, true] {
            let mut x = base.clone();
            x.sin = *a;
            x.sout = *b;
            x.serr = *c;
            x.detached = det;
            v.push(x);
        }
    }
    // option combinations on two stream layouts
    let opts: Vec<[bool; 7]> = if thorough {
        (0..128u32).map(|m| [m & 1 != 0, m & 2 != 0, m & 4 != 0, m & 8 != 0, m & 16 != 0, m & 32 != 0, m & 64 != 0]).collect()
    } else {
        vec![
            [true, false, false, false, false, false, false],
            [false, true, true, true, false, false, false],
            [false, false, false, false, true, false, false],
            [false, false, false, false, false, true, false],
            [true, true, true, true, true, true, true],
            [false, false, false, false, false, true, true],
            [true, false, false, true, false, true, false],
            [false, true, false, false, true, false, true],
            [false, false, true, false, true, true, false],
            [true, true, false, false, false, false, true],
            [true, false, true, true, true, false, false],
            [false, true, true, false, false, true, true],
        ]
    };
    for o in &opts {
        for (a, b, c) in [(0u8, 0u8, 0u8), (1, 1, 1)] {
            for det in [false, true] {
                if !thorough && det && (a, b, c) == (0, 0, 0) {
                    continue;
                }
                let mut x = base.clone();
                x.sin = a;
                x.sout = b;
                x.serr = c;
                x.detached = det;
                x.cwd = o[0];
                x.setuid = o[1];
                x.setgid = o[2];
                x.setpgid = o[3];
                x.exe_override = o[4];
                x.path_search = o[5];
                x.env = o[6];
                v.push(x);
            }
        }
    }
    v
}

pub struct Launch {
    pub result: Result<i32, String>, // Ok(pid) or Err(description)
    pub os_err: Option<i32>,
    pub logic_err: bool,
    pub events: Vec<Ev>,
    pub panic: Option<String>,
    pub cert: bool,
    pub leaks: Vec<String>,
    pub vanished: Vec<String>,
    pub survivors: Vec<(i32, char)>,
    pub exe_at_return: Option<String>,
    pub expected_exe: String,
    pub exposed_ok: bool,
    pub exposed_desc: String,
    pub after_drop_leaks: Vec<String>,
    pub after_drop_survivors: Vec<(i32, char)>,
    pub child_panics: usize,
    pub child_escapes: usize,
    pub reported: bool,
    pub fired: Vec<u32>,
}

fn file_for(dir: &Path, name: &str, read: bool) -> std::fs::File {
    let p = dir.join(name);
    if read {
        std::fs::write(&p, b"input-file-content").unwrap();
        std::fs::File::open(&p).unwrap()
    } else {
        std::fs::OpenOptions::new().create(true).append(true).open(&p).unwrap()
    }
}

/// One launch of `cfg` through Popen::create under observation, with optional fault rules.
pub fn launch(ctx: &mut Ctx, cfg: &Cfg, dir: &Path, rules: &[Rule], program: Option<(Vec<OsString>, Option<OsString>)>, path_value: Option<OsString>) -> Launch {
    run::begin_case();
    let exe = spawn::report_exe(ctx, dir, "c", "h");
    let _ = std::fs::remove_file(spawn::report_path(&exe));
    let exe_name: OsString = exe.file_name().unwrap().to_owned();
    let old_path = std::env::var_os("PATH");
    if let Some(pv) = &path_value {
        std::env::set_var("PATH", pv);
    } else if cfg.path_search {
        let mut p = OsString::from(dir.join("no-such-dir"));
        p.push(":");
        p.push(dir.as_os_str());
        p.push(":/nonexistent-tail");
        std::env::set_var("PATH", p);
    }
    let before = spawn::snap();
    let mk = |kind: u8, name: &str, read: bool| -> Redirection {
        match kind {
            1 => Redirection::Pipe,
            2 => Redirection::File(file_for(dir, name, read)),
            3 => Redirection::Merge,
            _ => Redirection::None,
        }
    };
    let (argv, executable): (Vec<OsString>, Option<OsString>) = match program {
        Some(p) => p,
        None => {
            let target: OsString = if cfg.path_search { exe_name.clone() } else { exe.clone().into_os_string() };
            if cfg.exe_override {
                (vec![OsString::from("some-argv0"), OsString::from("arg1")], Some(target))
            } else {
                (vec![target, OsString::from("arg1")], None)
            }
        }
    };
    let config = PopenConfig {
        stdin: mk(cfg.sin, "in.txt", true),
        stdout: mk(cfg.sout, "out.txt", false),
        stderr: mk(cfg.serr, "err.txt", false),
        detached: cfg.detached,
        executable,
        env: if cfg.env { Some(vec![(OsString::from("A"), OsString::from("1")), (OsString::from("PATH"), OsString::from("/child/env/path"))]) } else { None },
        cwd: if cfg.cwd { Some(dir.as_os_str().to_owned()) } else { None },
        setuid: if cfg.setuid { Some(0) } else { None },
        setgid: if cfg.setgid { Some(0) } else { None },
        setpgid: cfg.setpgid,
        ..Default::default()
    };
    // the parent's own descriptor layout: some of 0/1/2 closed (the files of the configuration are open already, so
    // the numbers are free for whatever the library opens); put back before this function returns
    // (the lock is for making and unmaking the layout only: the watchdog must be able to look at a launch that hangs)
    let mut layout_guard = if cfg.free_std != 0 { Some(inspect::proc_guard()) } else { None };
    let mut saved_std: Vec<(i32, i32)> = vec![];
    for s in 0..3 {
        if cfg.free_std & (1 << s) != 0 {
            unsafe {
                let keep = libc::syscall(libc::SYS_fcntl, s, libc::F_DUPFD_CLOEXEC, 100) as i32;
                libc::syscall(libc::SYS_close, s);
                saved_std.push((s, keep));
            }
        }
    }
    // (the parent's own closed descriptors are not part of what the launch may or may not leave behind)
    let mut before = before;
    for (s, _) in &saved_std {
        before.remove(s);
    }
    if !saved_std.is_empty() {
        let now = spawn::snap();
        for (_, keep) in &saved_std {
            if let Some(e) = now.get(keep) {
                before.insert(*keep, e.clone());
            }
        }
    }
    drop(layout_guard.take());
    let mut idx = vec![];
    for r in rules {
        idx.push(plan::add(*r));
    }
    // make "returned before the outcome was known" deterministic: the child dawdles before every exec attempt
    plan::add(Rule { kind: k::EXECVE, scope: plan::SCOPE_CHILD, nth: 0, fd: -1, act: plan::ACT_DELAY_BEFORE, val: 3000, prob: 1000 });
    let m = run::monitored(|| Popen::create(&argv, config));
    let expected_exe = exe.to_string_lossy().into_owned();
    let events = m.events();
    let pids = spawn::forked_pids(&events);
    let mut l = Launch {
        result: Err("panic".into()),
        os_err: None,
        logic_err: false,
        events,
        panic: m.panic.clone(),
        cert: m.cert.is_some(),
        leaks: vec![],
        vanished: vec![],
        survivors: vec![],
        exe_at_return: None,
        expected_exe,
        exposed_ok: true,
        exposed_desc: String::new(),
        after_drop_leaks: vec![],
        after_drop_survivors: vec![],
        child_panics: 0,
        child_escapes: 0,
        reported: false,
        fired: idx.iter().map(|&i| plan::fired(i)).collect(),
    };
    match m.result {
        Some(Ok(mut p)) => {
            let pid = p.pid().map(|x| x as i32).unwrap_or(-1);
            l.exe_at_return = inspect::proc_exe(pid);
            l.result = Ok(pid);
            use std::os::unix::io::AsRawFd;
            let mut allowed = vec![];
            for (f, kind, nm) in [(&p.stdin, cfg.sin, "stdin"), (&p.stdout, cfg.sout, "stdout"), (&p.stderr, cfg.serr, "stderr")] {
                if f.is_some() != (kind == 1) {
                    l.exposed_ok = false;
                    l.exposed_desc.push_str(&format!("{}: exposed={} but piped={}; ", nm, f.is_some(), kind == 1));
                }
                if let Some(f) = f {
                    allowed.push(f.as_raw_fd());
                }
            }
            let after = spawn::snap();
            l.leaks = spawn::leaked(&before, &after, &allowed);
            l.vanished = spawn::vanished(&before, &after);
            // did the program really start?
            l.reported = spawn::get_report(&exe, 3000).is_some();
            spawn::kill_now(pid);
            if cfg.detached {
                // a detached handle must not reap: make sure the harness cleans up instead
                let m2 = run::monitored(move || drop(p));
                let _ = m2;
                spawn::wait_dead(pid, 2000);
            } else {
                let m2 = run::monitored(move || drop(p));
                let _ = m2;
                l.after_drop_survivors = spawn::surviving(&pids);
            }
            let after2 = spawn::snap();
            l.after_drop_leaks = spawn::leaked(&before, &after2, &[]);
        }
        Some(Err(e)) => {
            match &e {
                PopenError::IoError(io) => l.os_err = io.raw_os_error(),
                PopenError::LogicError(_) => l.logic_err = true,
                _ => {}
            }
            l.result = Err(format!("{:?}", e));
            let after = spawn::snap();
            l.leaks = spawn::leaked(&before, &after, &[]);
            l.vanished = spawn::vanished(&before, &after);
            l.survivors = spawn::surviving(&pids);
            // ground truth: the program must not have started (give a straggler a moment to prove otherwise)
            if !l.survivors.is_empty() {
                // let a child that is still on its way out finish, so that the classification (zombie vs still running) is stable
                for (p, _) in l.survivors.clone() {
                    spawn::wait_dead(p, 1000);
                }
                l.survivors = spawn::surviving(&pids);
                l.reported = spawn::get_report(&exe, 50).is_some();
            } else {
                l.reported = spawn::report_path(&exe).exists();
            }
        }
        None => {}
    }
    l.child_panics = ilog::shared().map(|s| s.child_panics.load(SeqCst)).unwrap_or(0);
    l.child_escapes = ilog::child_escapes();
    let _layout_guard = if saved_std.is_empty() { None } else { Some(inspect::proc_guard()) };
    for (s, keep) in saved_std {
        unsafe {
            libc::syscall(libc::SYS_dup3, keep, s, 0);
            libc::syscall(libc::SYS_close, keep);
        }
    }
    match old_path {
        Some(p) => std::env::set_var("PATH", p),
        None => std::env::remove_var("PATH"),
    }
    run::end_case();
    l
}

fn failing_steps(evs: &[Ev]) -> Vec<(u16, bool, i32)> {
    let mut v = vec![];
    for e in evs {
        // only steps of the launch itself count (reaping the failed child, closing descriptors etc. are clean-up, not a cause)
        let failed = match e.kind {
            k::SIGMASK => e.ret != 0,
            k::PIPE | k::PIPE2 | k::FCNTL | k::FORK | k::VFORK | k::CHDIR | k::FCHDIR | k::DUP | k::DUP2 | k::DUP3 | k::SETUID | k::SETGID | k::SETPGID | k::SETRES | k::SETGROUPS | k::SETSID
            | k::EXECVE | k::EXECV | k::EXECVP | k::SIGNAL | k::SIGACTION | k::OPEN | k::POSIX_SPAWN => e.ret < 0,
            _ => false,
        };
        if failed {
            v.push((e.kind, e.child != 0, e.err));
        }
    }
    v
}

fn witness(cfg: &Cfg, l: &Launch, extra: J) -> J {
    J::obj()
        .set("config", J::s(&cfg.name()))
        .set("result", J::s(&match &l.result { Ok(p) => format!("Ok(pid {})", p), Err(e) => format!("Err({})", e) }))
        .set("events", J::arr_s(&ilog::fmt_tail(&l.events, 60)))
        .set("detail", extra)
}

/// Judge one launch. `what` names the injected fault / real cause for signatures.
pub fn judge(ctx: &mut Ctx, cfg: &Cfg, l: &Launch, what: &str, must_fail: Option<bool>) {
    ctx.count("launches", 1);
    if let Some(p) = &l.panic {
        ctx.violation(&format!("C07/panic/{}", what), "Popen::create panicked in the parent", witness(cfg, l, J::s(p)));
        return;
    }
    if ilog::child_exit_handlers() > 0 {
        ctx.violation(
            &format!("C07/forked-child-runs-the-callers-exit-handlers/{}", what),
            "the forked child left through exit() and ran the caller's exit-time handlers in a copy of the caller, instead of reporting the failure and leaving at once",
            witness(cfg, l, J::Null),
        );
        return;
    }
    if l.cert {
        ctx.violation(&format!("C07/hang/{}", what), "Popen::create deadlocked", witness(cfg, l, J::Null));
        return;
    }
    if l.child_panics > 0 {
        ctx.violation(
            &format!("C07/child-panic/{}", what),
            "library code panicked in the forked child instead of reporting the failure",
            witness(cfg, l, J::Null),
        );
    }
    if l.child_escapes > 0 {
        ctx.violation(
            &format!("C07/forked-child-ran-on-in-the-callers-code/{}", what),
            "the forked child returned from Popen::create into the caller's code instead of becoming the program or exiting",
            witness(cfg, l, J::Null),
        );
    }
    let fails = failing_steps(&l.events);
    match &l.result {
        Ok(pid) => {
            ctx.count("ok_results", 1);
            ctx.count("exe_checks_at_return", 1);
            if l.exe_at_return.as_deref() != Some(l.expected_exe.as_str()) || !l.reported {
                ctx.violation(
                    &format!("C07/ok-but-not-started/{}", what),
                    "Popen::create returned a handle although the requested program image was not running at that moment",
                    witness(cfg, l, J::obj().set("pid", J::i(*pid as i64)).set("exe_at_return", J::s(l.exe_at_return.as_deref().unwrap_or("<gone>"))).set("expected", J::s(&l.expected_exe)).set("child_reported", J::Bool(l.reported))),
                );
            }
            if must_fail == Some(true) {
                ctx.violation(&format!("C07/ok-despite-failure/{}", what), "a step of the launch failed but a handle was returned", witness(cfg, l, J::Null));
            }
            if !l.exposed_ok {
                ctx.violation(&format!("C07/exposure/{}", what), "parent-side stream handles do not match the piped streams", witness(cfg, l, J::s(&l.exposed_desc)));
            }
            ctx.count("fd_audits", 2);
            if !l.leaks.is_empty() || !l.vanished.is_empty() {
                ctx.violation(
                    &format!("C07/fd-leak-after-ok/{}", what),
                    "after a successful launch the parent holds descriptors other than the exposed pipe ends",
                    witness(cfg, l, J::obj().set("extra", J::arr_s(&l.leaks)).set("vanished", J::arr_s(&l.vanished))),
                );
            }
            if !l.after_drop_leaks.is_empty() {
                ctx.violation(&format!("C07/fd-leak-after-drop/{}", what), "descriptors of the launch remain after the handle was dropped", witness(cfg, l, J::arr_s(&l.after_drop_leaks)));
            }
            if !l.after_drop_survivors.is_empty() {
                ctx.violation(&format!("C07/zombie-after-drop/{}", what), "child not reaped by dropping the (non-detached) handle", witness(cfg, l, J::s(&format!("{:?}", l.after_drop_survivors))));
            }
        }
        Err(desc) => {
            ctx.count("err_results", 1);
            if must_fail == Some(false) {
                ctx.violation(&format!("C07/spurious-error/{}", what), "launch failed although nothing went wrong", witness(cfg, l, J::s(desc)));
            }
            if l.reported {
                ctx.violation(&format!("C07/err-but-started/{}", what), "an error was returned although the program image did start", witness(cfg, l, J::Null));
            }
            ctx.count("child_audits", 1);
            if !l.survivors.is_empty() {
                let z = l.survivors.iter().any(|s| s.1 == 'Z');
                ctx.violation(
                    &format!("C07/{}-after-err/{}{}", if z { "zombie" } else { "orphan" }, if cfg.detached { "detached/" } else { "" }, what),
                    "after a failed launch a child of the attempt is still there",
                    witness(cfg, l, J::s(&format!("{:?}", l.survivors))),
                );
            }
            ctx.count("fd_audits", 1);
            if !l.leaks.is_empty() || !l.vanished.is_empty() {
                ctx.violation(
                    &format!("C07/fd-leak-after-err/{}", what),
                    "after a failed launch descriptors opened by the attempt remain open in the parent",
                    witness(cfg, l, J::obj().set("extra", J::arr_s(&l.leaks)).set("vanished", J::arr_s(&l.vanished))),
                );
            }
            if l.logic_err {
                ctx.violation(&format!("C07/logic-error/{}", what), "a valid configuration was refused with a logic error", witness(cfg, l, J::Null));
            } else if fails.is_empty() && what == "real:empty-path-entries" && l.os_err.is_some() {
                // nothing to try at all: any operating-system error is the right answer
                ctx.count("errno_checks", 1);
            } else if fails.is_empty() {
                ctx.violation(&format!("C07/err-without-cause/{}", what), "an error was returned but no step of the launch failed", witness(cfg, l, J::Null));
            } else {
                ctx.count("errno_checks", 1);
                let ok = match l.os_err {
                    Some(e) => fails.iter().any(|f| f.2 == e),
                    None => false,
                };
                if !ok {
                    ctx.violation(
                        &format!("C07/wrong-errno/{}", what),
                        "the error does not carry the operating-system error of the step that failed",
                        witness(cfg, l, J::obj().set("returned", J::s(&format!("{:?}", l.os_err))).set("failed_steps", J::s(&format!("{:?}", fails.iter().map(|f| (k::name(f.0), f.1, f.2)).collect::<Vec<_>>())))),
                    );
                }
            }
        }
    }
}

const PARENT_KINDS: [u16; 3] = [k::PIPE, k::FCNTL, k::FORK];
// the child-side steps named by the property (signal-state set-up cannot fail in practice and is not part of its quantifier)
const CHILD_KINDS: [u16; 6] = [k::CHDIR, k::DUP2, k::SETUID, k::SETGID, k::SETPGID, k::EXECVE];

pub fn run(ctx: &mut Ctx) {
    let thorough = !ctx.quick();
    let cfgs = configs(thorough);
    ctx.count("configurations", 0);
    // ---- injected faults, enumerated per configuration from a dry run
    let ncfg = cfgs.len() as u64;
    let cfgs2 = cfgs.clone();
    ctx.family("inject", ncfg, move |ctx, rng, ci| {
        let cfg = &cfgs2[ci as usize];
        let dir = ctx.scratch_keep("c07");
        let dry = launch(ctx, cfg, &dir, &[], None, None);
        judge(ctx, cfg, &dry, "dry-run", Some(false));
        ctx.count("configurations", 1);
        let mut points: Vec<(u16, u8, u32)> = vec![];
        for &kind in &PARENT_KINDS {
            let n = dry.events.iter().filter(|e| e.child == 0 && (e.kind == kind || (kind == k::PIPE && e.kind == k::PIPE2))).count();
            for i in 1..=n {
                points.push((kind, plan::SCOPE_PARENT, i as u32));
            }
        }
        for &kind in &CHILD_KINDS {
            let n = dry.events.iter().filter(|e| e.child != 0 && (e.kind == kind || (kind == k::EXECVE && e.kind == k::EXECV) || (kind == k::SIGNAL && e.kind == k::SIGACTION && e.a[1] != -1))).count();
            for i in 1..=n {
                points.push((kind, plan::SCOPE_CHILD, i as u32));
            }
        }
        ctx.count("injection_points_enumerated", points.len() as i64);
        let errnos_parent: Vec<i32> = vec![libc::EMFILE, libc::ENFILE, libc::ENOMEM, libc::EAGAIN];
        for (kind, scope, nth) in points {
            let errs: Vec<i32> = if scope == plan::SCOPE_PARENT {
                errnos_parent.clone()
            } else if ctx.quick() {
                vec![*rng.pick(&[1, 2, 13, 12, 11, 24, 22]), rng.range(1, 133) as i32, rng.range(1, 133) as i32]
            } else {
                // every errno must round-trip through the status channel: all of them on one step per configuration class, a sample elsewhere
                if kind == k::EXECVE || (ci % 7 == 0) { (1..=133).collect() } else { vec![1, 2, 13, 12, 24, rng.range(1, 133) as i32, rng.range(1, 133) as i32] }
            };
            for e in errs {
                let rule = Rule { kind, scope, nth, fd: -1, act: plan::ACT_FAIL, val: e as i64, prob: 1000 };
                let l = launch(ctx, cfg, &dir, &[rule], None, None);
                let what = format!("{}:{}", if scope == plan::SCOPE_CHILD { "child" } else { "parent" }, k::name(kind));
                if l.fired[0] == 0 {
                    ctx.count("injections_not_reached", 1);
                    continue;
                }
                ctx.count("injections_fired", 1);
                ctx.distinct(&format!("{}|{}|{}|{}", cfg.name(), what, nth, e));
                // a failed exec attempt on a PATH candidate may legitimately be followed by a successful one
                let must_fail = if kind == k::EXECVE && cfg.path_search { None } else { Some(true) };
                judge(ctx, cfg, &l, &what, must_fail);
                if ctx.samples.len() < 3 {
                    ctx.sample(J::obj().set("config", J::s(&cfg.name())).set("fault", J::s(&rule.describe())).set("result", J::s(&format!("{:?}", l.result))));
                }
            }
        }
        let _ = std::fs::remove_dir_all(&dir);
    });
    // ---- the process ignores SIGCHLD (children are reaped by the kernel behind the library's back):
    //      the error must still be that of the step that failed
    ctx.family("sigchld-ignored", ctx.n(48, 400), |ctx, rng, i| {
        let cfg = Cfg { sin: (i % 2) as u8, sout: (i % 2) as u8, serr: 0, detached: i % 4 >= 2, cwd: false, setuid: false, setgid: false, setpgid: false, exe_override: false, path_search: i % 3 == 0, env: false, free_std: 0 };
        let dir = ctx.scratch_keep("c07s");
        let kind = *rng.pick(&[k::DUP2, k::EXECVE, k::EXECVE, k::SETPGID, k::CHDIR]);
        let mut cfg = cfg;
        if kind == k::DUP2 {
            cfg.sout = 1;
        }
        if kind == k::SETPGID {
            cfg.setpgid = true;
        }
        if kind == k::CHDIR {
            cfg.cwd = true;
        }
        let e = *rng.pick(&[libc::EACCES, libc::ENOENT, libc::ENOMEM, libc::EPERM, libc::ENOTDIR]);
        let rule = Rule { kind, scope: plan::SCOPE_CHILD, nth: if kind == k::EXECVE { 0 } else { 1 }, fd: -1, act: plan::ACT_FAIL, val: e as i64, prob: 1000 };
        let old = unsafe { libc::signal(libc::SIGCHLD, libc::SIG_IGN) };
        let l = launch(ctx, &cfg, &dir, &[rule], None, None);
        unsafe { libc::signal(libc::SIGCHLD, old) };
        if l.fired[0] == 0 {
            ctx.count("injections_not_reached", 1);
            return;
        }
        ctx.count("launches_with_sigchld_ignored", 1);
        ctx.distinct(&format!("sigchld-ign|{}|{}|{}", cfg.name(), k::name(kind), e));
        judge(ctx, &cfg, &l, &format!("sigchld-ignored/child:{}", k::name(kind)), Some(true));
        let _ = std::fs::remove_dir_all(&dir);
    });
    // ---- the parent has closed some of its own standard descriptors: the descriptors the library opens for the
    //      launch (status channel, pipes) then get the numbers 0..2, onto which the child installs its streams
    let layouts: Vec<(u8, (u8, u8, u8))> = {
        let mut v = vec![];
        for free in 1..8u8 {
            for st in [(0u8, 0u8, 0u8), (1, 1, 1), (1, 0, 0), (0, 1, 0), (0, 0, 1), (2, 1, 1), (1, 2, 3), (0, 1, 3), (2, 2, 1), (0, 2, 1), (2, 1, 2)] {
                v.push((free, st));
            }
        }
        v
    };
    let nl = layouts.len() as u64 * 4;
    ctx.family("parent-std-free", nl, move |ctx, rng, i| {
        let (free, (a, b, c)) = layouts[(i / 4) as usize];
        let mode = i % 4; // 0: nothing goes wrong, 1: the program does not exist, 2: an injected child-side failure, 3: a parent-side one
        let cfg = Cfg { sin: a, sout: b, serr: c, detached: rng.chance(300), cwd: false, setuid: false, setgid: false, setpgid: rng.chance(300), exe_override: false, path_search: false, env: false, free_std: free };
        let dir = ctx.scratch_keep("c07l");
        let what;
        let l = match mode {
            0 => {
                what = "parent-std-free/nothing-fails".to_string();
                launch(ctx, &cfg, &dir, &[], None, None)
            }
            1 => {
                what = "parent-std-free/real:missing".to_string();
                let mut l = launch(ctx, &cfg, &dir, &[], Some((vec![dir.join("does-not-exist").into_os_string(), OsString::from("a")], None)), None);
                if l.result.is_ok() {
                    l.expected_exe = "<nothing can be started>".into();
                }
                l
            }
            3 => {
                // descriptor exhaustion at one of the parent's own steps (creating, flagging or moving a descriptor, forking)
                let kind = *rng.pick(&[k::FCNTL, k::FCNTL, k::PIPE, k::FORK]);
                let nth = rng.range(1, 8) as u32;
                what = format!("parent-std-free/parent:{}", k::name(kind));
                let rule = Rule { kind, scope: plan::SCOPE_PARENT, nth, fd: -1, act: plan::ACT_FAIL, val: *rng.pick(&[libc::EMFILE, libc::ENFILE, libc::ENOMEM]) as i64, prob: 1000 };
                let l = launch(ctx, &cfg, &dir, &[rule], None, None);
                if l.fired[0] == 0 {
                    ctx.count("injections_not_reached", 1);
                    let _ = std::fs::remove_dir_all(&dir);
                    return;
                }
                l
            }
            _ => {
                let kind = *rng.pick(&[k::EXECVE, k::EXECVE, k::DUP2, k::SETPGID]);
                let mut cfg2 = cfg.clone();
                if kind == k::SETPGID {
                    cfg2.setpgid = true;
                }
                what = format!("parent-std-free/child:{}", k::name(kind));
                let e = *rng.pick(&[libc::EACCES, libc::ENOMEM, libc::EPERM, libc::EIO]);
                let rule = Rule { kind, scope: plan::SCOPE_CHILD, nth: if kind == k::EXECVE { 0 } else { 1 }, fd: -1, act: plan::ACT_FAIL, val: e as i64, prob: 1000 };
                let l = launch(ctx, &cfg2, &dir, &[rule], None, None);
                if l.fired[0] == 0 {
                    ctx.count("injections_not_reached", 1);
                    let _ = std::fs::remove_dir_all(&dir);
                    return;
                }
                l
            }
        };
        ctx.count("launches_with_parent_standard_descriptors_free", 1);
        ctx.distinct(&format!("layout|{}|{}", cfg.name(), what));
        judge(ctx, &cfg, &l, &what, Some(mode != 0));
        let _ = std::fs::remove_dir_all(&dir);
    });
    // ---- schedules: the parent or the child is held up at one of the points between two steps of the launch; nothing
    //      fails, so a handle must come back, and only once the program is known to run
    ctx.family("schedules", ctx.n(160, 3000), |ctx, rng, i| {
        let st = *rng.pick(&[(0u8, 0u8, 0u8), (1, 1, 1), (0, 1, 3), (2, 2, 2), (1, 0, 0)]);
        let cfg = Cfg { sin: st.0, sout: st.1, serr: st.2, detached: rng.chance(300), cwd: rng.chance(300), setuid: false, setgid: false, setpgid: i % 2 == 0, exe_override: rng.chance(200), path_search: rng.chance(300), env: rng.chance(300), free_std: 0 };
        let dir = ctx.scratch_keep("c07d");
        // where somebody is held up (microseconds)
        // (every third case: a signal handler of the caller interrupts the parent while it waits to learn the outcome)
        if i % 3 == 2 {
            let every = rng.chance(300);
            let rule = Rule { kind: k::READ, scope: plan::SCOPE_PARENT, nth: if every { 0 } else { 1 }, fd: -1, act: plan::ACT_FAIL, val: libc::EINTR as i64, prob: if every { 500 } else { 1000 } };
            // (nth = 0 with p = 1/2: interrupted again and again; a launch that retries gets through eventually)
            let l = launch(ctx, &cfg, &dir, &[rule], None, None);
            ctx.count("launches_interrupted_while_waiting_for_the_outcome", 1);
            ctx.distinct(&format!("sched|{}|interrupted-status-read", cfg.name()));
            // the interruption is no failure of the launch: the program runs, so either a handle comes back or - if the
            // library chooses to report the interruption - no program may be left running behind the error
            judge(ctx, &cfg, &l, "schedule/parent-interrupted-while-waiting-for-the-outcome", None);
            let _ = std::fs::remove_dir_all(&dir);
            return;
        }
        let points: [(u16, u8, u8); 7] = [
            (k::FORK, plan::SCOPE_PARENT, plan::ACT_DELAY_AFTER), // the child runs ahead of the parent: it may be the program already
            (k::FORK, plan::SCOPE_PARENT, plan::ACT_DELAY_BEFORE),
            (k::CLOSE, plan::SCOPE_PARENT, plan::ACT_DELAY_BEFORE),
            (k::READ, plan::SCOPE_PARENT, plan::ACT_DELAY_BEFORE),
            (k::SETPGID, plan::SCOPE_CHILD, plan::ACT_DELAY_BEFORE),
            (k::DUP2, plan::SCOPE_CHILD, plan::ACT_DELAY_BEFORE),
            (k::CLOSE, plan::SCOPE_CHILD, plan::ACT_DELAY_BEFORE),
        ];
        let mut rules = vec![];
        let first = points[(i % points.len() as u64) as usize];
        rules.push(Rule { kind: first.0, scope: first.1, nth: 0, fd: -1, act: first.2, val: rng.range(2_000, 25_000) as i64, prob: 1000 });
        if rng.chance(400) {
            let p = *rng.pick(&points);
            rules.push(Rule { kind: p.0, scope: p.1, nth: 0, fd: -1, act: p.2, val: rng.range(500, 8_000) as i64, prob: 500 });
        }
        let l = launch(ctx, &cfg, &dir, &rules, None, None);
        let what = format!("schedule/{}-held-up-{}-{}", if first.1 == plan::SCOPE_PARENT { "parent" } else { "child" }, if first.2 == plan::ACT_DELAY_AFTER { "after" } else { "before" }, k::name(first.0));
        ctx.count("launches_under_a_perturbed_schedule", 1);
        ctx.distinct(&format!("sched|{}|{}", cfg.name(), what));
        judge(ctx, &cfg, &l, &what, Some(false));
        let _ = std::fs::remove_dir_all(&dir);
    });
    // ---- real causes
    let reals: Vec<&str> = vec!["missing", "directory", "mode0644", "bad-cwd", "cwd-is-file", "missing-on-path", "empty-path-entries", "noexec-on-path", "name-too-long", "garbage-file"];
    let nreal = reals.len() as u64 * 4;
    ctx.family("real", nreal, move |ctx, _rng, i| {
        let cause = reals[(i / 4) as usize];
        let mut cfg = Cfg { sin: 0, sout: 0, serr: 0, detached: i % 2 == 1, cwd: false, setuid: false, setgid: false, setpgid: false, exe_override: false, path_search: false, env: false, free_std: 0 };
        if i % 4 >= 2 {
            cfg.sin = 1;
            cfg.sout = 1;
            cfg.serr = 1;
        }
        let dir = ctx.scratch_keep("c07r");
        use std::os::unix::fs::PermissionsExt;
        let mut path_value = None;
        let prog: PathBuf = match cause {
            "missing" => dir.join("does-not-exist"),
            "directory" => {
                std::fs::create_dir_all(dir.join("adir")).unwrap();
                dir.join("adir")
            }
            "mode0644" => {
                std::fs::write(dir.join("noexec"), b"#!/bin/true\n").unwrap();
                std::fs::set_permissions(dir.join("noexec"), std::fs::Permissions::from_mode(0o644)).unwrap();
                dir.join("noexec")
            }
            "garbage-file" => {
                std::fs::write(dir.join("garbage"), b"\x00\x01not an executable").unwrap();
                std::fs::set_permissions(dir.join("garbage"), std::fs::Permissions::from_mode(0o755)).unwrap();
                dir.join("garbage")
            }
            "bad-cwd" | "cwd-is-file" => spawn::report_exe(ctx, &dir, "c", "h"),
            "missing-on-path" => {
                path_value = Some(OsString::from(format!("{}:{}", dir.join("x").display(), dir.display())));
                PathBuf::from("surely-no-such-program-xyz")
            }
            "empty-path-entries" => {
                path_value = Some(OsString::from(if i % 2 == 0 { ":" } else { ":::" }));
                PathBuf::from("vrep@c@h")
            }
            "noexec-on-path" => {
                std::fs::write(dir.join("prog-noexec"), b"#!/bin/true\n").unwrap();
                std::fs::set_permissions(dir.join("prog-noexec"), std::fs::Permissions::from_mode(0o644)).unwrap();
                path_value = Some(OsString::from(format!("{}", dir.display())));
                PathBuf::from("prog-noexec")
            }
            "name-too-long" => PathBuf::from(format!("{}/{}", dir.display(), "n".repeat(300))),
            _ => unreachable!(),
        };
        let argv = vec![prog.clone().into_os_string(), OsString::from("a")];
        let mut l;
        if cause == "bad-cwd" || cause == "cwd-is-file" {
            // launch() uses `dir` as cwd when cfg.cwd; here the cwd must be bad, so go through a thin variant
            run::begin_case();
            let bad = if cause == "bad-cwd" { dir.join("no/such/dir") } else {
                std::fs::write(dir.join("plainfile"), b"x").unwrap();
                dir.join("plainfile")
            };
            let before = spawn::snap();
            let config = PopenConfig {
                stdin: if cfg.sin == 1 { Redirection::Pipe } else { Redirection::None },
                stdout: if cfg.sout == 1 { Redirection::Pipe } else { Redirection::None },
                stderr: if cfg.serr == 1 { Redirection::Pipe } else { Redirection::None },
                detached: cfg.detached,
                cwd: Some(bad.into_os_string()),
                ..Default::default()
            };
            let m = run::monitored(|| Popen::create(&argv, config));
            let events = m.events();
            let pids = spawn::forked_pids(&events);
            let after = spawn::snap();
            l = Launch {
                result: Err("?".into()), os_err: None, logic_err: false, events, panic: m.panic.clone(), cert: m.cert.is_some(),
                leaks: spawn::leaked(&before, &after, &[]), vanished: spawn::vanished(&before, &after), survivors: spawn::surviving(&pids),
                exe_at_return: None, expected_exe: prog.to_string_lossy().into_owned(), exposed_ok: true, exposed_desc: String::new(),
                after_drop_leaks: vec![], after_drop_survivors: vec![], child_panics: ilog::shared().map(|s| s.child_panics.load(SeqCst)).unwrap_or(0), child_escapes: ilog::child_escapes(),
                reported: spawn::report_path(&prog).exists(), fired: vec![],
            };
            match m.result {
                Some(Ok(p)) => {
                    l.result = Ok(p.pid().unwrap_or(0) as i32);
                    l.exe_at_return = inspect::proc_exe(p.pid().unwrap_or(0) as i32);
                    if let Some(pid) = p.pid() {
                        spawn::kill_now(pid as i32);
                    }
                    drop(p);
                }
                Some(Err(e)) => {
                    if let PopenError::IoError(io) = &e {
                        l.os_err = io.raw_os_error();
                    } else {
                        l.logic_err = true;
                    }
                    l.result = Err(format!("{:?}", e));
                }
                None => {}
            }
            run::end_case();
        } else {
            l = launch(ctx, &cfg, &dir, &[], Some((argv, None)), path_value);
            if let Ok(_pid) = l.result {
                // whatever ran, it is not what was asked for (nothing startable exists): exe_at_return != expected is reported by judge()
                l.expected_exe = "<nothing can be started>".into();
            }
        }
        ctx.distinct(&format!("real|{}|{}", cause, cfg.name()));
        judge(ctx, &cfg, &l, &format!("real:{}", cause), Some(true));
        ctx.count("real_causes", 1);
        let _ = std::fs::remove_dir_all(&dir);
    });
}
