// C03 — size limit bounds each read; no data lost or repeated across reads.
// C04 — time limit honoured for any child, reported truthfully, reads resumable.
// Chains of Communicator::read() calls with changing limits; per-stream reassembly;
// C04 runs on the pure virtual clock (idle polls skip ahead, every poll/read/write
// costs a configurable amount of virtual time so that "a child that floods faster than
// the parent drains" is deterministic).

use crate::comm::{self, Entry, Limit, Xcfg, Xres};
use crate::common::pat_vec;
use crate::ilog::{self, k};
use crate::json::J;
use crate::plan;
use crate::rng::Rng;
use crate::run::{self, Ctx};
use std::io::ErrorKind;
use std::time::Duration;

fn describe(cfg: &Xcfg, fam: &str) -> J {
    J::obj()
        .set("family", J::s(fam))
        .set("entry", J::s(&format!("{:?}", cfg.entry)))
        .set("script", J::s(&cfg.script))
        .set("input_len", J::i(cfg.input.as_ref().map(|v| v.len() as i64).unwrap_or(-1)))
        .set("piped", J::s(&format!("out={} err={}", cfg.out_piped, cfg.err_piped)))
        .set("pipe_capacity", J::i(cfg.cap))
        .set("limits", J::Arr(cfg.chain.iter().take(12).map(|l| J::s(&format!("size={:?} time={:?}", l.size, l.time))).collect()))
        .set("virtual_clock(cap_ms,op_cost_ns)", J::s(&format!("{:?}", cfg.vclock)))
}

fn reads_json(x: &Xres) -> J {
    J::Arr(
        x.reads
            .iter()
            .take(40)
            .map(|r| {
                J::s(&format!(
                    "{} out={} err={} limit(size={:?},time={:?}) virtual_elapsed={}ns polls_after_deadline={}",
                    if r.ok { "Ok".to_string() } else { format!("Err({:?},{:?})", r.err_kind, r.errno) },
                    r.out.as_ref().map(|v| v.len() as i64).unwrap_or(-1),
                    r.err.as_ref().map(|v| v.len() as i64).unwrap_or(-1),
                    r.limit.size,
                    r.limit.time,
                    r.t1 as i64 - r.t0 as i64,
                    r.polls_after_deadline
                ))
            })
            .collect(),
    )
}

/// Shared reassembly oracle: per-stream concatenation over all reads (captures of errors included) against what the child wrote.
fn reassembly(ctx: &mut Ctx, prop: &str, cfg: &Xcfg, fam: &str, x: &Xres, complete: bool) {
    let w = |extra: J| describe(cfg, fam).set("reads", reads_json(x)).set("child_report", J::arr_s(&x.report)).set("detail", extra);
    let wrote1 = x.child_wrote(1) as usize;
    let wrote2 = x.child_wrote(2) as usize;
    let exp1 = pat_vec(cfg.seed, 1, 0, wrote1);
    let exp2 = pat_vec(cfg.seed, 2, 0, wrote2);
    let got1 = x.cat_out();
    let got2 = x.cat_err();
    let chk = |ctx: &mut Ctx, name: &str, got: &[u8], exp: &[u8], piped: bool| {
        if !piped {
            return;
        }
        let is_prefix = exp.len() >= got.len() && exp[..got.len()] == *got;
        if complete {
            if got != exp {
                let kind = if is_prefix { "lost" } else if got.len() > exp.len() && got[..exp.len()] == *exp { "repeated-or-extra" } else { "corrupted" };
                let off = (0..got.len().max(exp.len())).find(|&i| got.get(i) != exp.get(i)).unwrap_or(0);
                ctx.violation(
                    &format!("{}/reassembly/{}/{}", prop, name, kind),
                    &format!("{}: the pieces returned by successive reads add up to {} bytes, the child wrote {}; first difference at offset {}", name, got.len(), exp.len(), off),
                    w(J::Null),
                );
            } else {
                ctx.count(&format!("{}_bytes_reassembled", name), got.len() as i64);
            }
        } else if !is_prefix {
            // the chain did not run to the end: what was returned so far must still be a consecutive prefix
            let pat = pat_vec(cfg.seed, if name == "stdout" { 1 } else { 2 }, 0, got.len());
            if pat != got {
                ctx.violation(&format!("{}/reassembly/{}/corrupted", prop, name), &format!("{}: pieces returned so far are not consecutive pieces of the child's output", name), w(J::Null));
            }
        }
    };
    chk(ctx, "stdout", &got1, &exp1, cfg.out_piped);
    chk(ctx, "stderr", &got2, &exp2, cfg.err_piped);
    // input: exactly once
    if let Some(inp) = &cfg.input {
        if complete {
            if let Some((len, h, _)) = x.child_in() {
                if len != inp.len() as u64 || h != comm::hash(inp) {
                    ctx.violation(&format!("{}/input-not-delivered-exactly-once", prop), &format!("across the resumed reads the child received {} bytes, the input has {}", len, inp.len()), w(J::Null));
                } else {
                    ctx.count("inputs_delivered_across_reads", 1);
                }
            }
        }
    }
}

fn chain_complete(x: &Xres) -> bool {
    // the chain ended with a successful all-empty read = the library claims EOF on everything
    x.reads.last().map(|r| r.ok && r.out.as_ref().map(|v| v.is_empty()).unwrap_or(true) && r.err.as_ref().map(|v| v.is_empty()).unwrap_or(true)).unwrap_or(false)
}

// ---------------------------------------------------------------- C03

fn c03_case(ctx: &mut Ctx, rng: &mut Rng, i: u64) {
    let cap = *rng.pick(&[4096i64, 65536, 65536, 16384]);
    let tiny = rng.chance(200); // limit 1 only with little output (one poll+read per byte)
    let both = rng.chance(750);
    let (mut n1, mut n2) = if tiny { (rng.range(0, 3000), rng.range(0, 1000)) } else { (comm::size_near(rng, cap as u64) + rng.range(0, 100_000), comm::size_near(rng, cap as u64)) };
    let mut piped_in = rng.chance(400);
    let mut input_len = if piped_in { comm::size_near(rng, cap as u64) + if rng.chance(300) { 200_000 } else { 0 } } else { 0 };
    let seed = rng.next() >> 1;
    // child behaviour: interleaved bursts on both streams, delays so that reads happen while it is still producing
    let mut ops: Vec<String> = vec![];
    let (mut l1, mut l2) = (n1, if both { n2 } else { 0 });
    while l1 > 0 || l2 > 0 {
        if l1 > 0 && (l2 == 0 || rng.chance(500)) {
            let n = rng.range(1, l1.min(50_000));
            ops.push(format!("w1:{}:{}", n, comm::chunk(rng)));
            l1 -= n;
        } else if l2 > 0 {
            let n = rng.range(1, l2.min(50_000));
            ops.push(format!("w2:{}:{}", n, comm::chunk(rng)));
            l2 -= n;
        }
        if rng.chance(200) {
            ops.push(format!("s{}", rng.range(1, 3)));
        }
        if piped_in && rng.chance(200) {
            ops.push(format!("r{}", comm::chunk(rng).min(65536)));
        }
    }
    if piped_in {
        ops.push("R".into());
    }
    ops.push("x0".into());
    // limits
    let mut total = n1 + if both { n2 } else { 0 };
    let choices: Vec<usize> = if tiny { vec![1, 2, 3, 4095, 7] } else { vec![2, 4095, 4096, 4097, cap as usize - 1, cap as usize, cap as usize + 1, 100, 1 << 20, total as usize + 10, 50_000] };
    let mut chain = vec![];
    let mut budget: u64 = 0;
    let mut constant = rng.chance(300);
    let c0 = *rng.pick(&choices);
    // one case in seven (of those with two streams): one stream delivers less than the limit and ends; only after the
    // parent has seen that does the other one start, with several times the limit.  The bytes of the stream that has
    // ended count towards the limit of the read like any others
    let ends_below = !tiny && both && c0 >= 2 && rng.chance(150);
    if ends_below {
        let a = rng.range(1, 2);
        let b = 3 - a;
        let k = rng.range(1, (c0 as u64 - 1).min(60_000));
        let m = (c0 as u64).min(200_000) * rng.range(2, 4) + rng.range(0, 5000);
        ops = vec![format!("w{}:{}:{}", a, k, k), format!("c{}", a), format!("s{}", rng.range(15, 40)), format!("w{}:{}:{}", b, m, comm::chunk(rng)), "x0".into()];
        if a == 1 {
            n1 = k;
            n2 = m;
        } else {
            n1 = m;
            n2 = k;
        }
        piped_in = false;
        input_len = 0;
        total = n1 + n2;
        constant = true;
        ctx.count("chains_where_one_stream_ends_below_the_limit_before_the_other_starts", 1);
    }
    // some chains also carry (real, short) time limits: a read that times out short of its size limit must be resumable
    let with_time = rng.chance(250);
    while budget < total + 10 && chain.len() < 20_000 {
        let s = if constant { c0 } else { *rng.pick(&choices) };
        budget += s as u64;
        let t = if with_time && rng.chance(500) { Some(Duration::from_millis(rng.range(1, 4))) } else { None };
        if t.is_some() {
            budget = budget.saturating_sub(s as u64 / 2); // a timed-out read may return less: allow for more reads
        }
        chain.push(Limit { size: Some(s), time: t });
    }
    // then large limits until end-of-file is reported
    for _ in 0..(total / 4096 + 64) {
        chain.push(Limit { size: Some(1 << 22), time: if with_time { Some(Duration::from_secs(3600)) } else { None } });
    }
    // a signal handler may interrupt the parent's poll (EINTR): the read fails with Interrupted and can be resumed
    let eintr = rng.chance(250);
    let cfg = Xcfg {
        seed,
        script: ops.join(","),
        input: if piped_in { Some(comm::input_for(seed, input_len as usize)) } else { None },
        out_piped: true,
        err_piped: both || rng.chance(500),
        err_merge: false,
        cap,
        entry: if rng.chance(700) { Entry::Start } else { Entry::ExecCommunicate },
        chain,
        short_rw: if rng.chance(300) { 300 } else { 0 },
        delay_us: if rng.chance(300) { 300 } else { 0 },
        vclock: None,
        max_polls_after_deadline: -1,
        ops_budget: 8 * (n1 as i64 + n2 as i64 + input_len as i64) + 200_000,
        stop_when_done: true,
        kill_after: false,
        eintr_permille: if eintr { 40 } else { 0 },
        route: comm::Route::default(),
    };
    let mut cfg = cfg;
    cfg.route.via_clone = rng.chance(200);
    cfg.route.time_first = rng.chance(500);
    cfg.route.free_std = if rng.chance(120) { rng.range(1, 7) as u8 } else { 0 };
    // one chain in six reads through read_string(): each piece is then the lossy decoding of the bytes of that read
    cfg.route.text_chain = cfg.entry == Entry::Start && rng.chance(170);
    let x = comm::exchange(ctx, &cfg);
    let fam = if tiny { "tiny-limits" } else if constant { "constant-limit" } else { "changing-limits" };
    if cfg.route.text_chain {
        c03_text_judge(ctx, &cfg, fam, &x, with_time, eintr);
        return;
    }
    let w = |extra: J| describe(&cfg, fam).set("reads", reads_json(&x)).set("child_report", J::arr_s(&x.report)).set("detail", extra);
    ctx.count("read_chains", 1);
    ctx.count("reads_performed", x.reads.len() as i64);
    if i < 2 {
        ctx.sample(describe(&cfg, fam));
    }
    if let Some(c) = &x.cert {
        ctx.inconclusive("exchange deadlocked (C01's matter)", run::cert_json(c));
        return;
    }
    if x.panic.is_some() || x.hard_timeout || x.launch_error.is_some() {
        if let Some(p) = &x.panic {
            ctx.violation("C03/panic", "a limited read panicked", w(J::s(p)));
        }
        return;
    }
    let mut second_stream_cut = false;
    for (j, r) in x.reads.iter().enumerate() {
        let n = r.limit.size.unwrap_or(usize::MAX);
        let (a, b) = (r.out.as_ref().map(|v| v.len()).unwrap_or(0), r.err.as_ref().map(|v| v.len()).unwrap_or(0));
        if a + b > n {
            ctx.violation(&format!("C03/limit-exceeded/{}", fam), &format!("read #{} returned {}+{} bytes with a limit of {}", j, a, b, n), w(J::Null));
            return;
        }
        if a > 0 && b > 0 && a + b == n {
            second_stream_cut = true;
        }
        if !r.ok {
            // a timeout (when a time limit is set) and an interrupted poll are honest outcomes; the exchange is resumed
            // (a time limit, once set on a Communicator, stays in force for the following reads)
            let ok_err = (r.err_kind == Some(ErrorKind::TimedOut) && with_time) || (r.err_kind == Some(ErrorKind::Interrupted) && eintr);
            if ok_err {
                ctx.count("reads_resumed_after_timeout_or_interruption", 1);
                continue;
            }
            ctx.violation(&format!("C03/error/{:?}", r.err_kind), &format!("read #{} failed: {:?}", j, r.err_kind), w(J::Null));
            return;
        }
        ctx.distinct(&format!("{}|{}|{}", n.min(70000), a.min(3), b.min(3)));
    }
    if second_stream_cut {
        ctx.count("reads_where_the_limit_cut_into_the_second_stream", 1);
    }
    let complete = chain_complete(&x);
    if complete {
        ctx.count("chains_run_to_eof", 1);
        // all-empty success must mean real end-of-file on every captured stream: nothing may be missing
        let wrote = (x.child_wrote(1) as usize, x.child_wrote(2) as usize);
        let got = (x.cat_out().len(), x.cat_err().len());
        if got.0 < wrote.0 || (cfg.err_piped && got.1 < wrote.1) || !x.child_done() {
            ctx.violation(
                &format!("C03/empty-before-eof/{}", fam),
                &format!("a successful read returned all-empty data although the streams had not reached end-of-file (got {}+{} of {}+{} bytes)", got.0, got.1, wrote.0, wrote.1),
                w(J::Null),
            );
            return;
        }
    }
    reassembly(ctx, "C03", &cfg, fam, &x, complete);
}

/// read_string() chains: what each call took out of the two pipes is known from the interposed log (the read() calls
/// it made and their results); the strings it returned must be the lossy decoding of exactly those bytes - nothing held
/// back for later, nothing carried over - and those bytes are bounded by the limit.
fn c03_text_judge(ctx: &mut Ctx, cfg: &Xcfg, fam: &str, x: &Xres, with_time: bool, eintr: bool) {
    let w = |extra: J| describe(cfg, fam).set("reads", reads_json(x)).set("child_report", J::arr_s(&x.report)).set("detail", extra);
    ctx.count("read_chains", 1);
    ctx.count("read_string_chains", 1);
    if x.cert.is_some() || x.hard_timeout || x.launch_error.is_some() || x.overflow {
        return;
    }
    if let Some(p) = &x.panic {
        ctx.violation("C03/panic", "a limited read_string panicked", w(J::s(p)));
        return;
    }
    let (mut off1, mut off2) = (0usize, 0usize);
    let mut complete = false;
    for (j, r) in x.reads.iter().enumerate() {
        let n = r.limit.size.unwrap_or(usize::MAX);
        let evs = &x.events[r.ev_start.min(x.events.len())..r.ev_end.min(x.events.len())];
        let taken = |fd: i32| -> usize { evs.iter().filter(|e| e.child == 0 && e.kind == k::READ && e.a[0] == fd as i64 && e.ret > 0).map(|e| e.ret as usize).sum() };
        let (l1, l2) = (if x.fds.1 >= 0 { taken(x.fds.1) } else { 0 }, if x.fds.2 >= 0 { taken(x.fds.2) } else { 0 });
        ctx.count("reads_performed", 1);
        if l1 + l2 > n {
            ctx.violation(&format!("C03/limit-exceeded/{}", fam), &format!("read_string #{} took {}+{} bytes out of the pipes with a limit of {}", j, l1, l2, n), w(J::Null));
            return;
        }
        let e1 = pat_vec(cfg.seed, 1, off1 as u64, l1);
        let e2 = pat_vec(cfg.seed, 2, off2 as u64, l2);
        off1 += l1;
        off2 += l2;
        if !r.ok {
            let ok_err = (r.err_kind == Some(ErrorKind::TimedOut) && with_time) || (r.err_kind == Some(ErrorKind::Interrupted) && eintr);
            if !ok_err {
                ctx.violation(&format!("C03/error/{:?}", r.err_kind), &format!("read_string #{} failed: {:?}", j, r.err_kind), w(J::Null));
                return;
            }
            // the error carries the bytes captured during the call
            let (g1, g2) = (r.out.clone().unwrap_or_default(), r.err.clone().unwrap_or_default());
            if g1 != e1 || g2 != e2 {
                ctx.violation("C03/text/capture-of-error", "the data carried by the error is not what the call took out of the pipes", w(J::Null));
                return;
            }
            continue;
        }
        let (g1, g2) = (r.out_str.clone().unwrap_or_default(), r.err_str.clone().unwrap_or_default());
        ctx.count("text_pieces_compared", 1);
        if g1 != String::from_utf8_lossy(&e1) || (cfg.err_piped && g2 != String::from_utf8_lossy(&e2)) {
            let held_back = g1.len() < String::from_utf8_lossy(&e1).len() || g2.len() < String::from_utf8_lossy(&e2).len();
            ctx.violation(
                &format!("C03/text/{}", if held_back { "bytes-held-back" } else { "piece-differs" }),
                &format!("read_string #{} took {}+{} bytes out of the pipes but the strings it returned are not the lossy decoding of those bytes", j, l1, l2),
                w(J::obj().set("stdout_returned", J::s(&g1.chars().take(40).collect::<String>())).set("stdout_expected", J::s(&String::from_utf8_lossy(&e1).chars().take(40).collect::<String>()))),
            );
            return;
        }
        if g1.is_empty() && g2.is_empty() {
            // all-empty success: must be real end-of-file everywhere
            complete = true;
            let wrote = (x.child_wrote(1) as usize, x.child_wrote(2) as usize);
            if off1 < wrote.0 || (cfg.err_piped && off2 < wrote.1) || !x.child_done() {
                ctx.violation(&format!("C03/empty-before-eof/{}", fam), &format!("read_string returned all-empty strings after {}+{} of {}+{} bytes", off1, off2, wrote.0, wrote.1), w(J::Null));
                return;
            }
        }
    }
    if complete {
        ctx.count("chains_run_to_eof", 1);
        let wrote = (x.child_wrote(1) as usize, x.child_wrote(2) as usize);
        if off1 != wrote.0 || (cfg.err_piped && off2 != wrote.1) {
            ctx.violation("C03/reassembly/text/lost", &format!("the read_string chain consumed {}+{} bytes, the child wrote {}+{}", off1, off2, wrote.0, wrote.1), w(J::Null));
        } else {
            ctx.count("stdout_bytes_reassembled", off1 as i64);
        }
    }
}

// ---------------------------------------------------------------- C04

const MS: u128 = 1_000_000;

fn t_classes() -> Vec<(&'static str, Duration)> {
    vec![
        ("0", Duration::from_nanos(0)),
        ("1ns", Duration::from_nanos(1)),
        ("500us", Duration::from_micros(500)),
        ("1ms", Duration::from_millis(1)),
        ("10ms", Duration::from_millis(10)),
        ("1s", Duration::from_secs(1)),
        ("2^31-1ms", Duration::from_millis((1u64 << 31) - 1)),
        ("2^31ms", Duration::from_millis(1u64 << 31)),
        ("2^31+1ms", Duration::from_millis((1u64 << 31) + 1)),
        // (the virtual clock counts nanoseconds in an i64: about 292 years)
        ("10y", Duration::from_secs(315_360_000)),
    ]
}

fn c04_case(ctx: &mut Ctx, rng: &mut Rng, i: u64) {
    let seed = rng.next() >> 1;
    let tcs = t_classes();
    let kinds = ["silent", "trickle", "burst-then-silent", "flood", "closes-stdin-pipe-full", "closes-stdin-pipe-not-full", "exits-mid-exchange", "no-limit-control", "slow-reader-of-large-input", "nibbles-input-then-pauses", "only-stdin-piped", "whole-chunks-on-the-only-stream-then-silent"];
    let kind = kinds[(i % kinds.len() as u64) as usize];
    let (tname, t) = tcs[rng.below(tcs.len() as u64) as usize].clone();
    let cap: i64 = 65536;
    let mut input: Option<Vec<u8>> = None;
    let mut op_cost = 0i64;
    let mut kill_after = false;
    let mut first_time: Option<Duration> = Some(t);
    let mut only_stdin = false;
    let mut only_one_output: Option<u64> = None;
    let script = match kind {
        "whole-chunks-on-the-only-stream-then-silent" => {
            // a single captured stream, nothing to send; the child writes a burst that is a whole number of 4096-byte
            // pieces (what one read takes), in one go, and then keeps the stream open and says nothing more: that the last
            // read came back full says nothing about more being there
            let stream = rng.range(1, 2);
            only_one_output = Some(stream);
            kill_after = true;
            let n = rng.range(1, 16) * 4096;
            format!("w{}:{}:{},s4000,x0", stream, n, n)
        }
        "silent" => {
            kill_after = true;
            "s4000,x0".to_string()
        }
        "trickle" => {
            op_cost = if rng.chance(500) { rng.range(20_000, 200_000) as i64 } else { 0 };
            let mut v = vec![];
            for _ in 0..rng.range(3, 25) {
                v.push(format!("w{}:{}:1", rng.range(1, 2), rng.range(1, 3)));
                v.push(format!("s{}", rng.range(1, 4)));
            }
            v.push("x0".into());
            v.join(",")
        }
        "burst-then-silent" => {
            // with a cost per parent operation, draining the burst takes virtual time: the silence that follows must be
            // waited for only for what is left of the limit
            op_cost = if rng.chance(700) { rng.range(20_000, 300_000) as i64 } else { 0 };
            kill_after = rng.chance(500);
            format!("w1:{}:4096,w2:{}:512,s{},w1:{}:4096,x0", rng.range(1, 200_000), rng.range(0, 5000), if kill_after { 4000 } else { rng.range(5, 30) }, rng.range(0, 100_000))
        }
        "flood" => {
            // producers faster than the (virtually slowed) parent: data is ready at every poll
            op_cost = rng.range(100_000, 300_000) as i64;
            format!("w1:{}:65536,w2:{}:65536,x0", rng.range(8_000_000, 30_000_000), rng.range(0, 3_000_000))
        }
        "closes-stdin-pipe-full" => {
            // the parent fills the stdin pipe, then the child closes its end: poll reports POLLERR on the write side
            input = Some(comm::input_for(seed, (cap as usize) * 3 + 1234));
            first_time = if rng.chance(500) { None } else { Some(t) };
            format!("s{},c0,s{},w1:100:100,x0", rng.range(10, 30), rng.range(5, 40))
        }
        "closes-stdin-pipe-not-full" => {
            input = Some(comm::input_for(seed, rng.range(1, 5000) as usize));
            first_time = if rng.chance(500) { None } else { Some(t) };
            format!("c0,s{},w1:100:100,x0", rng.range(1, 20))
        }
        "slow-reader-of-large-input" => {
            // the input is several times the pipe capacity and the child starts reading late: reads time out part-way
            // through the input and are resumed; the child must still receive every byte exactly once
            input = Some(comm::input_for(seed, rng.range(cap as u64 * 2, cap as u64 * 6) as usize));
            format!("s{},r{},s{},R,w1:{}:4096,x0", rng.range(8, 25), rng.range(1, 70000), rng.range(0, 15), rng.range(0, 20000))
        }
        "nibbles-input-then-pauses" => {
            // the stdin pipe is full; the child takes one small piece (one slot of the pipe becomes free: the pipe is
            // "writable" again, but not for much) and then does nothing for a long while
            input = Some(comm::input_for(seed, rng.range(cap as u64 * 2, cap as u64 * 3) as usize));
            format!("s{},r{},s{},R,w1:{}:4096,x0", rng.range(10, 30), *rng.pick(&[4096u64, 4096, 8192, 1, 5000]), rng.range(300, 500), rng.range(0, 5000))
        }
        "only-stdin-piped" => {
            // nothing is captured: the exchange consists of feeding a large input to a child that takes it slowly
            input = Some(comm::input_for(seed, rng.range(cap as u64 * 2, cap as u64 * 4) as usize));
            only_stdin = true;
            format!("s{},r{},s{},R,x0", rng.range(10, 30), *rng.pick(&[4096u64, 1, 70000]), rng.range(300, 500))
        }
        "exits-mid-exchange" => {
            input = if rng.chance(500) { Some(comm::input_for(seed, rng.range(1, 300_000) as usize)) } else { None };
            format!("w1:{}:4096,s{},x{}", rng.range(0, 100_000), rng.range(0, 10), rng.below(3))
        }
        _ => {
            // control: no limit at all must never time out, whatever the child does
            first_time = None;
            format!("s{},w1:{}:4096,s{},w2:300:7,x0", rng.range(1, 30), rng.range(0, 200_000), rng.range(1, 30))
        }
    };
    // chain: up to 8 resumed reads mixing time and size limits, then generous reads until end-of-file
    // (the first read may carry a size limit too: both limits are in force together, whichever order they were set in)
    let first_size = if first_time.is_some() && rng.chance(300) { Some(*rng.pick(&[1usize << 22, 100_000, 4096])) } else { None };
    let mut chain = vec![Limit { size: first_size, time: first_time }];
    if first_time.is_some() {
        for _ in 0..rng.range(0, 7) {
            let (_, t2) = tcs[rng.below(6) as usize].clone();
            chain.push(Limit { size: if rng.chance(300) { Some(*rng.pick(&[1usize, 4096, 100_000])) } else { None }, time: Some(t2) });
        }
        if !kill_after {
            for _ in 0..20_000 {
                chain.push(Limit { size: Some(1 << 22), time: Some(Duration::from_secs(3600)) });
            }
        }
    }
    let huge_t = t.as_millis() > (1u128 << 31) * 4;
    let eintr = matches!(kind, "trickle" | "burst-then-silent" | "no-limit-control" | "silent") && rng.chance(300);
    let cfg = Xcfg {
        seed,
        script,
        input,
        out_piped: !only_stdin && only_one_output != Some(2),
        err_piped: !only_stdin && only_one_output != Some(1),
        err_merge: false,
        cap,
        entry: if rng.chance(800) { Entry::Start } else { Entry::ExecCommunicate },
        chain,
        short_rw: 0,
        delay_us: 0,
        vclock: Some((if huge_t { 1 } else { rng.range(2, 5) as i64 }, op_cost)),
        max_polls_after_deadline: 8,
        ops_budget: 400_000_000 / 4096 * 8 + 500_000,
        stop_when_done: true,
        kill_after,
        eintr_permille: if eintr { 60 } else { 0 },
        route: comm::Route::default(),
    };
    let mut cfg = cfg;
    cfg.route.time_first = rng.chance(500);
    cfg.route.via_clone = rng.chance(150);
    cfg.route.free_std = if rng.chance(120) { rng.range(1, 7) as u8 } else { 0 };
    let x = comm::exchange(ctx, &cfg);
    let w = |extra: J| describe(&cfg, kind).set("reads", reads_json(&x)).set("child_report", J::arr_s(&x.report)).set("events_tail", J::arr_s(&ilog::fmt_tail(&x.events, 14))).set("detail", extra);
    ctx.count("read_chains", 1);
    ctx.count("reads_performed", x.reads.len() as i64);
    ctx.count(&format!("child.{}", kind), 1);
    ctx.distinct(&format!("{}|{}|{}", kind, tname, first_time.is_some()));
    if i < 3 {
        ctx.sample(describe(&cfg, kind));
    }
    if let Some(c) = &x.cert {
        ctx.inconclusive("exchange deadlocked (C01's matter)", run::cert_json(c));
        return;
    }
    if let Some(p) = &x.panic {
        ctx.violation("C04/panic", "a time-limited read panicked", w(J::s(p)));
        return;
    }
    if x.hard_timeout || x.launch_error.is_some() {
        return;
    }
    let mut aborted = false;
    for (j, r) in x.reads.iter().enumerate() {
        let elapsed = (r.t1 as i128 - r.t0 as i128).max(0) as u128;
        if !r.ok && r.errno == Some(plan::ABORT_ERRNO) {
            // the monitor ended the call: it kept polling long after the deadline
            ctx.count("flood_cases_where_data_was_ready_at_every_poll_after_the_deadline", 1);
            ctx.violation(
                &format!("C04/deadline-ignored/{}", kind),
                &format!("read #{} with a limit of {:?} started more than 8 further poll rounds after its (virtual) deadline had passed: the limit is not honoured while data keeps arriving", j, r.limit.time),
                w(J::Null),
            );
            aborted = true;
            break;
        }
        if !r.ok && r.err_kind == Some(ErrorKind::TimedOut) {
            ctx.count("timeouts_observed", 1);
            ctx.count(&format!("timeouts.{}", tname), 1);
            match r.limit.time {
                None => {
                    ctx.violation(&format!("C04/timeout-without-limit/{}", kind), &format!("read #{} reported a timeout although no time limit was set", j), w(J::Null));
                    return;
                }
                Some(t) => {
                    let tn = t.as_nanos();
                    if elapsed + MS < tn {
                        ctx.violation(
                            &format!("C04/early-timeout/{}", kind),
                            &format!("read #{} reported a timeout after {} ns of (virtual) time with a limit of {} ns", j, elapsed, tn),
                            w(J::Null),
                        );
                        return;
                    }
                    ctx.max("overshoot_us", ((elapsed - tn.min(elapsed)) / 1000) as i64);
                    // on the deterministic clock a correct read gives up within one round of the deadline: one idle poll
                    // ends at the deadline (ms rounding), one round costs at most 4 charged operations plus clock ticks
                    let nev = (r.ev_end - r.ev_start) as u128;
                    let bound = tn + 4 * op_cost.max(0) as u128 + nev * 4_000 + 3 * MS;
                    if elapsed > bound {
                        ctx.violation(
                            &format!("C04/late-timeout/{}", kind),
                            &format!("read #{} with a limit of {} ns reported the timeout only after {} ns of virtual time (one I/O round costs at most {} ns here)", j, tn, elapsed, 4 * op_cost.max(0)),
                            w(J::Null),
                        );
                        return;
                    }
                }
            }
        } else if !r.ok {
            // other errors: EPIPE when the child closed stdin is legitimate; so is an honestly reported interruption
            if r.err_kind == Some(ErrorKind::BrokenPipe) && cfg.input.is_some() {
                ctx.count("epipe_outcomes", 1);
            } else if r.err_kind == Some(ErrorKind::Interrupted) && eintr {
                ctx.count("interrupted_reads_resumed", 1);
            } else {
                ctx.violation(&format!("C04/error/{:?}", r.err_kind), &format!("read #{} failed with {:?}/{:?}", j, r.err_kind, r.errno), w(J::Null));
                return;
            }
        }
        if let (Some(t), true) = (r.limit.time, r.ok || r.err_kind != Some(ErrorKind::TimedOut)) {
            // whatever the call returned, it returned no later than the limit plus one bounded I/O step (time the
            // parent spent asleep in a blocking call is on the virtual clock: it is charged what it really took)
            ctx.count("returns_checked_against_the_limit", 1);
            let tn = t.as_nanos();
            let nev = (r.ev_end - r.ev_start) as u128;
            let bound = tn + 4 * op_cost.max(0) as u128 + nev * 4_000 + 3 * MS;
            if elapsed > bound {
                ctx.violation(
                    &format!("C04/late-return/{}", kind),
                    &format!("read #{} with a limit of {} ns returned ({}) only after {} ns of virtual time, {} ns of which the parent spent asleep in blocking calls over the whole exchange", j, tn, if r.ok { "Ok".to_string() } else { format!("{:?}", r.err_kind) }, elapsed, crate::vclock::BLOCKED_NS.load(std::sync::atomic::Ordering::SeqCst)),
                    w(J::Null),
                );
                return;
            }
        }
        if r.limit.time.is_some() {
            ctx.max("polls_started_after_deadline", r.polls_after_deadline as i64);
            if r.polls_after_deadline > 4 {
                ctx.violation(
                    &format!("C04/late-return/{}", kind),
                    &format!("read #{} started {} poll rounds after its deadline had passed before returning", j, r.polls_after_deadline),
                    w(J::Null),
                );
                return;
            }
        }
    }
    if aborted {
        return;
    }
    let epipe = x.reads.iter().any(|r| !r.ok && r.err_kind == Some(ErrorKind::BrokenPipe));
    let complete = chain_complete(&x) && !kill_after && !epipe;
    if complete {
        ctx.count("resumed_chains_verified_to_eof", 1);
    }
    let closes_stdin = kind.starts_with("closes-stdin");
    let mut cfg2 = cfg.clone();
    if closes_stdin || epipe {
        cfg2.input = None; // the child did not take the input by design
    }
    reassembly(ctx, "C04", &cfg2, kind, &x, complete && x.child_done());
}

// ---------------------------------------------------------------- the cfg(windows) communicator, executed on Linux

/// One exchange through the crate's thread-based (Windows) RawCommunicator, extracted verbatim at build time
/// (build.rs) and run here over real pipes to a real scripted child started with the unix Popen.
/// `limits`: size limit per successive read (None = unlimited).  Returns the reads and the child's report.
pub fn win_exchange(ctx: &mut Ctx, seed: u64, script: &str, input: Option<Vec<u8>>, out_piped: bool, err_piped: bool, limits: &[Option<usize>]) -> Option<(Vec<(bool, Option<Vec<u8>>, Option<Vec<u8>>, Option<usize>)>, Vec<String>)> {
    use crate::win_comm::raw::RawCommunicator;
    use subprocess::{Popen, PopenConfig, Redirection};
    run::begin_case();
    let dir = ctx.scratch("win");
    let rep = dir.join("rep");
    let argv: Vec<std::ffi::OsString> = vec![ctx.vchild.clone().into(), "io".into(), seed.to_string().into(), script.into(), rep.clone().into()];
    let null = || Redirection::File(std::fs::OpenOptions::new().write(true).open("/dev/null").unwrap());
    let config = PopenConfig {
        stdin: if input.is_some() { Redirection::Pipe } else { Redirection::None },
        stdout: if out_piped { Redirection::Pipe } else { null() },
        stderr: if err_piped { Redirection::Pipe } else { null() },
        ..Default::default()
    };
    let mut p = match Popen::create(&argv, config) {
        Ok(p) => p,
        Err(_) => {
            run::end_case();
            return None;
        }
    };
    let mut rc = RawCommunicator::new(p.stdin.take(), p.stdout.take(), p.stderr.take(), input);
    let mut reads = vec![];
    let m = run::monitored(|| {
        for lim in limits {
            let (err, (o, e)) = rc.read(None, *lim);
            let empty = o.as_ref().map(|v| v.is_empty()).unwrap_or(true) && e.as_ref().map(|v| v.is_empty()).unwrap_or(true);
            let ok = err.is_none();
            reads.push((ok, o, e, *lim));
            if !ok || empty {
                break;
            }
        }
    });
    if m.panic.is_some() || m.hard_timeout {
        if let Some(pm) = &m.panic {
            ctx.violation("C03/win-variant/panic", "the thread-based communicator panicked", J::s(pm));
        }
        run::end_case();
        return None;
    }
    drop(rc);
    let _ = crate::ilog::quiet(|| {
        for _ in 0..300 {
            if p.poll().is_some() {
                break;
            }
            std::thread::sleep(Duration::from_millis(1));
        }
    });
    let report = crate::kid::read_lines(&rep);
    if let Some(pid) = p.pid() {
        crate::spawn::kill_now(pid as i32);
    }
    drop(p);
    run::end_case();
    Some((reads, report))
}

fn wrote(report: &[String], s: u8) -> usize {
    let mut n = 0;
    for l in report {
        let p: Vec<&str> = l.split(' ').collect();
        if p[0] == "w" && p.len() >= 3 && p[1] == s.to_string() {
            n = n.max(p[2].parse().unwrap_or(0));
        }
    }
    n
}

fn c03_win_case(ctx: &mut Ctx, rng: &mut Rng, _i: u64) {
    if !crate::win_comm::EXTRACTED {
        ctx.inconclusive("extraction of the cfg(windows) communicator failed", J::Null);
        return;
    }
    let seed = rng.next() >> 1;
    let (n1, n2) = (rng.range(0, 60_000), rng.range(0, 20_000));
    let mut ops = vec![];
    let (mut l1, mut l2) = (n1, n2);
    while l1 > 0 || l2 > 0 {
        if l1 > 0 && (l2 == 0 || rng.chance(500)) {
            let n = rng.range(1, l1.min(9000));
            ops.push(format!("w1:{}:{}", n, comm::chunk(rng)));
            l1 -= n;
        } else {
            let n = rng.range(1, l2.min(9000));
            ops.push(format!("w2:{}:{}", n, comm::chunk(rng)));
            l2 -= n;
        }
        if rng.chance(150) {
            ops.push(format!("s{}", rng.range(1, 2)));
        }
    }
    let with_input = rng.chance(400);
    if with_input {
        ops.push("R".into());
    }
    ops.push("x0".into());
    let script = ops.join(",");
    let choices = [1usize, 2, 7, 100, 4095, 4096, 4097, 5000, 1 << 20];
    let tiny = n1 + n2 < 3000;
    let mut limits: Vec<Option<usize>> = vec![];
    let mut budget = 0u64;
    while budget < n1 + n2 + 10 && limits.len() < 30_000 {
        let s = if tiny { *rng.pick(&choices) } else { *rng.pick(&choices[3..]) };
        budget += s as u64;
        limits.push(Some(s));
    }
    for _ in 0..64 {
        limits.push(Some(1 << 22));
    }
    let input = if with_input { Some(comm::input_for(seed, rng.range(0, 200_000) as usize)) } else { None };
    let (reads, report) = match win_exchange(ctx, seed, &script, input.clone(), true, true, &limits) {
        Some(x) => x,
        None => return,
    };
    ctx.count("win_variant_chains", 1);
    ctx.count("win_variant_reads", reads.len() as i64);
    let w = J::obj().set("script", J::s(&script)).set("reads", J::Arr(reads.iter().take(30).map(|r| J::s(&format!("ok={} out={:?} err={:?} limit={:?}", r.0, r.1.as_ref().map(|v| v.len()), r.2.as_ref().map(|v| v.len()), r.3))).collect())).set("child_report", J::arr_s(&report));
    let mut got1 = vec![];
    let mut got2 = vec![];
    for (j, (ok, o, e, lim)) in reads.iter().enumerate() {
        let (a, b) = (o.as_ref().map(|v| v.len()).unwrap_or(0), e.as_ref().map(|v| v.len()).unwrap_or(0));
        if let Some(l) = lim {
            if a + b > *l {
                ctx.violation("C03/win-variant/limit-exceeded", &format!("thread-based communicator: read #{} returned {}+{} bytes with a limit of {}", j, a, b, l), w);
                return;
            }
        }
        if !ok {
            ctx.violation("C03/win-variant/error", &format!("thread-based communicator: read #{} failed", j), w);
            return;
        }
        got1.extend_from_slice(o.as_deref().unwrap_or(&[]));
        got2.extend_from_slice(e.as_deref().unwrap_or(&[]));
    }
    let done = report.iter().any(|l| l == "done" || l.starts_with("exit "));
    let last_empty = reads.last().map(|r| r.1.as_ref().map(|v| v.is_empty()).unwrap_or(true) && r.2.as_ref().map(|v| v.is_empty()).unwrap_or(true)).unwrap_or(false);
    if last_empty && done {
        let (e1, e2) = (pat_vec(seed, 1, 0, wrote(&report, 1)), pat_vec(seed, 2, 0, wrote(&report, 2)));
        if got1 != e1 || got2 != e2 {
            let kind = if got1.len() < e1.len() || got2.len() < e2.len() { "lost-or-early-eof" } else { "repeated-or-corrupted" };
            ctx.violation(&format!("C03/win-variant/reassembly/{}", kind), &format!("thread-based communicator: pieces add up to {}+{} bytes, the child wrote {}+{}", got1.len(), got2.len(), e1.len(), e2.len()), w);
            return;
        }
        ctx.count("win_variant_bytes_reassembled", (got1.len() + got2.len()) as i64);
        if let Some(inp) = &input {
            if let Some(l) = report.iter().rev().find(|l| l.starts_with("in ")) {
                let p: Vec<&str> = l.split(' ').collect();
                let (len, h): (u64, u64) = (p[1].parse().unwrap_or(0), p[2].parse().unwrap_or(0));
                if len != inp.len() as u64 || h != comm::hash(inp) {
                    ctx.violation("C03/win-variant/input", "thread-based communicator: the child did not receive the input exactly once", w);
                }
            }
        }
    }
    ctx.distinct(&format!("win|{}|{}|{}", n1 / 5000, n2 / 5000, with_input));
}

pub fn run_c03(ctx: &mut Ctx) {
    let n = ctx.n(1600, 40_000);
    ctx.family("chains", n, c03_case);
    let nw = ctx.n(240, 10_000);
    ctx.family("windows-variant", nw, c03_win_case);
}

pub fn run_c04(ctx: &mut Ctx) {
    let n = ctx.n(1200, 30_000);
    ctx.family("chains", n, c04_case);
}
