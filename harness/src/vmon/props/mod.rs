use crate::run::Ctx;

pub mod c05;
pub mod c06;
pub mod c07;
pub mod c08;
pub mod c20;

pub fn run(ctx: &mut Ctx) -> bool {
    match ctx.prop.as_str() {
        "C05" => c05::run(ctx),
        "C06" => c06::run(ctx),
        "C07" => c07::run(ctx),
        "C08" => c08::run(ctx),
        "C20" => c20::run(ctx),
        _ => return false,
    }
    true
}
