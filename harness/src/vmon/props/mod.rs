use crate::run::Ctx;

pub mod c20;

pub fn run(ctx: &mut Ctx) -> bool {
    match ctx.prop.as_str() {
        "C20" => c20::run(ctx),
        _ => return false,
    }
    true
}
