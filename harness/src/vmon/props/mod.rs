use crate::run::Ctx;

pub mod c0102;
pub mod c0304;
pub mod c05;
pub mod c06;
pub mod c07;
pub mod c08;
pub mod c11;
pub mod c12;
pub mod c15;
pub mod c16;
pub mod c17;
pub mod c18;
pub mod c19;
pub mod c20;
pub mod life;
pub mod pipes;

pub fn run(ctx: &mut Ctx) -> bool {
    match ctx.prop.as_str() {
        "C01" => c0102::run(ctx, c0102::Which { c01: true, c02: false }),
        "C02" => c0102::run(ctx, c0102::Which { c01: false, c02: true }),
        "C03" => c0304::run_c03(ctx),
        "C04" => c0304::run_c04(ctx),
        "C05" => c05::run(ctx),
        "C06" => c06::run(ctx),
        "C07" => c07::run(ctx),
        "C08" => c08::run(ctx),
        "C09" => life::run(ctx, life::Flags { c09: true, c10: false }),
        "C10" => life::run(ctx, life::Flags { c09: false, c10: true }),
        "C11" => c11::run(ctx),
        "C12" => c12::run(ctx),
        "C13" => pipes::run_c13(ctx),
        "C14" => pipes::run_c14(ctx),
        "C15" => c15::run(ctx),
        "C16" => c16::run(ctx),
        "C17" => c17::run(ctx),
        "C18" => c18::run(ctx),
        "C19" => c19::run(ctx),
        "C20" => c20::run(ctx),
        _ => return false,
    }
    true
}
