// C05 — every redirection combination wires the child's streams to the requested objects.
// Exhaustive over the 5x5x5 assignments x sharing variants; identity of open files is
// decided by inode + the shared-offset probe (kcmp is not available in this kernel).

use crate::ilog::{self, k, Ev};
use crate::json::J;
use crate::kid::Report;
use crate::run::{self, Ctx};
use crate::spawn;
use std::ffi::OsString;
use std::fs::File;
use std::io::{Seek, SeekFrom};
use std::os::unix::fs::MetadataExt;
use std::os::unix::io::AsRawFd;
use std::rc::Rc;
use subprocess::{Popen, PopenConfig, PopenError, Redirection};

const KINDS: [&str; 5] = ["None", "Pipe", "File", "RcFile", "Merge"];
const DELTA: [i64; 3] = [13, 7, 11];

#[derive(Clone, Copy, Debug, PartialEq, Eq)]
enum Target {
    Inherit(usize), // the worker's own fd n
    Pipe(usize),    // the pipe created for stream n
    Obj(usize),     // open file description #i handed over by the caller
}

struct Obj {
    keeper: File,
    dev: u64,
    ino: u64,
    init: u64,
}

fn resolve(kinds: [usize; 3], objs: [Option<usize>; 3]) -> Option<[Target; 3]> {
    // the documented semantics, as a table
    if kinds[0] == 4 || (kinds[1] == 4 && kinds[2] == 4) {
        return None;
    }
    let direct = |s: usize| match kinds[s] {
        0 => Target::Inherit(s),
        1 => Target::Pipe(s),
        2 | 3 => Target::Obj(objs[s].unwrap()),
        _ => unreachable!(),
    };
    let t0 = direct(0);
    let (t1, t2) = if kinds[1] == 4 {
        let e = direct(2);
        (e, e)
    } else if kinds[2] == 4 {
        let o = direct(1);
        (o, o)
    } else {
        (direct(1), direct(2))
    };
    Some([t0, t1, t2])
}

fn own_fd_state(fd: i32) -> (String, i32, i32, i64) {
    let t = std::fs::read_link(format!("/proc/self/fd/{}", fd)).map(|p| p.to_string_lossy().into_owned()).unwrap_or_else(|_| "<closed>".into());
    unsafe {
        let a = libc::syscall(libc::SYS_fcntl, fd, libc::F_GETFD) as i32;
        let b = libc::syscall(libc::SYS_fcntl, fd, libc::F_GETFL) as i32;
        let o = libc::syscall(libc::SYS_lseek, fd, 0, libc::SEEK_CUR);
        (t, a, b, o)
    }
}

fn set_own_offset(fd: i32, off: i64) {
    unsafe {
        libc::syscall(libc::SYS_lseek, fd, off, libc::SEEK_SET);
    }
}

fn parent_touches_std(evs: &[Ev]) -> Vec<String> {
    let mut v = vec![];
    for e in evs {
        if e.child != 0 {
            continue;
        }
        let bad = match e.kind {
            k::CLOSE => (0..=2).contains(&e.a[0]),
            k::DUP2 | k::DUP3 => (0..=2).contains(&e.a[1]),
            k::FCNTL => (0..=2).contains(&e.a[0]) && (e.a[1] == libc::F_SETFD as i64 || e.a[1] == libc::F_SETFL as i64),
            k::CLOSE_RANGE => e.a[0] <= 2,
            _ => false,
        };
        if bad {
            v.push(ilog::fmt_ev(e));
        }
    }
    v
}

struct Outcome {
    viol: Vec<(String, String, J)>,
    valid: bool,
}

/// One spawn of the combination `kinds` with sharing variant `shared` on the current thread.
fn one_spawn(ctx: &mut Ctx, kinds: [usize; 3], shared: bool, dir: &std::path::Path, tag: &str) -> Outcome {
    one_spawn_x(ctx, kinds, shared, dir, tag, &Layout::default())
}

/// The parent's own descriptor layout at the time of the spawn.
#[derive(Clone, Debug, Default)]
struct Layout {
    /// standard descriptors the parent has closed
    closed: Vec<usize>,
    /// order in which the files handed over are opened (decides which of the free low numbers each one gets)
    order: Vec<usize>,
    /// true: the files are opened first and the descriptors closed afterwards, so that 0/1/2 are *free* at spawn time
    /// and the pipes the library creates land on them
    holes_at_spawn: bool,
}

/// `closed`: the parent has closed its own fd s beforehand, so that the file handed over for stream s happens to *be*
/// descriptor s (a daemon that closed its stdin and passes a freshly opened file as the child's stdin).
fn one_spawn_x(ctx: &mut Ctx, kinds: [usize; 3], shared: bool, dir: &std::path::Path, tag: &str, layout: &Layout) -> Outcome {
    let mut viol: Vec<(String, String, J)> = vec![];
    let closed = &layout.closed;
    let combo = format!(
        "{}/{}/{}{}{}",
        KINDS[kinds[0]], KINDS[kinds[1]], KINDS[kinds[2]], if shared { "+shared" } else { "" },
        if closed.is_empty() { String::new() } else { format!("+parent-fd{}-{}", closed.iter().map(|c| c.to_string()).collect::<Vec<_>>().join("+"), if layout.holes_at_spawn { "free-at-spawn" } else { "closed" }) }
    );
    // nobody else in this process may open a descriptor while the hole exists
    // (the lock is for making and unmaking the layout only: the watchdog must be able to look at a spawn that hangs)
    let mut hole_guard = if closed.is_empty() { None } else { Some(crate::inspect::proc_guard()) };
    let mut saved_fd: Vec<(usize, i32)> = vec![];
    let close_them = |saved_fd: &mut Vec<(usize, i32)>| {
        for &s in closed.iter() {
            unsafe {
                let keep = libc::syscall(libc::SYS_fcntl, s as i32, libc::F_DUPFD_CLOEXEC, 100) as i32;
                libc::syscall(libc::SYS_close, s as i32);
                saved_fd.push((s, keep));
            }
        }
    };
    if !layout.holes_at_spawn {
        close_them(&mut saved_fd);
    }
    let exe = spawn::report_exe(ctx, dir, tag, "ph");
    let _ = std::fs::remove_file(spawn::report_path(&exe));
    // ---- objects
    let mut objs: Vec<Obj> = vec![];
    let mut stream_obj: [Option<usize>; 3] = [None; 3];
    let mut redirs: Vec<Option<Redirection>> = vec![None, None, None];
    let mut shared_file: Option<File> = None;
    let mut shared_rc: Option<(Rc<File>, usize)> = None;
    let mut shared_file_obj = 0usize;
    let mk_file = |name: &str| -> File {
        let p = dir.join(name);
        std::fs::write(&p, vec![b'.'; 4096]).unwrap();
        std::fs::OpenOptions::new().read(true).write(true).open(&p).unwrap()
    };
    let order: Vec<usize> = if layout.order.len() == 3 { layout.order.clone() } else { closed.iter().cloned().chain((0..3).filter(|x| !closed.contains(x))).collect() };
    for s in order {
        let r = match kinds[s] {
            0 => Redirection::None,
            1 => Redirection::Pipe,
            4 => Redirection::Merge,
            2 => {
                if shared {
                    if shared_file.is_none() {
                        let f = mk_file(&format!("{}-sharedfile", tag));
                        let md = f.metadata().unwrap();
                        objs.push(Obj { keeper: f.try_clone().unwrap(), dev: md.dev(), ino: md.ino(), init: 0 });
                        shared_file_obj = objs.len() - 1;
                        shared_file = Some(f);
                    }
                    stream_obj[s] = Some(shared_file_obj);
                    Redirection::File(shared_file.as_ref().unwrap().try_clone().unwrap())
                } else {
                    let f = mk_file(&format!("{}-file{}", tag, s));
                    let md = f.metadata().unwrap();
                    objs.push(Obj { keeper: f.try_clone().unwrap(), dev: md.dev(), ino: md.ino(), init: 0 });
                    stream_obj[s] = Some(objs.len() - 1);
                    Redirection::File(f)
                }
            }
            3 => {
                if shared {
                    if shared_rc.is_none() {
                        let f = mk_file(&format!("{}-sharedrc", tag));
                        let md = f.metadata().unwrap();
                        objs.push(Obj { keeper: f.try_clone().unwrap(), dev: md.dev(), ino: md.ino(), init: 0 });
                        shared_rc = Some((Rc::new(f), objs.len() - 1));
                    }
                    let (rc, oi) = shared_rc.as_ref().unwrap();
                    stream_obj[s] = Some(*oi);
                    Redirection::RcFile(Rc::clone(rc))
                } else {
                    let f = mk_file(&format!("{}-rc{}", tag, s));
                    let md = f.metadata().unwrap();
                    objs.push(Obj { keeper: f.try_clone().unwrap(), dev: md.dev(), ino: md.ino(), init: 0 });
                    stream_obj[s] = Some(objs.len() - 1);
                    Redirection::RcFile(Rc::new(f))
                }
            }
            _ => unreachable!(),
        };
        redirs[s] = Some(r);
    }
    drop(shared_file);
    drop(shared_rc);
    for (i, o) in objs.iter_mut().enumerate() {
        o.init = 100 * (i as u64 + 1);
        o.keeper.seek(SeekFrom::Start(o.init)).unwrap();
    }
    if layout.holes_at_spawn {
        close_them(&mut saved_fd);
    }
    for fd in 0..3 {
        if !closed.contains(&(fd as usize)) {
            set_own_offset(fd, 1000 * (fd as i64 + 1));
        }
    }
    let expect = resolve(kinds, stream_obj);
    let std_before: Vec<_> = (0..3).map(own_fd_state).collect();
    let serr = redirs[2].take().unwrap();
    let sout = redirs[1].take().unwrap();
    let sin = redirs[0].take().unwrap();
    drop(hole_guard.take());
    let argv = vec![exe.clone().into_os_string(), OsString::from("x")];
    let config = PopenConfig { stdin: sin, stdout: sout, stderr: serr, ..Default::default() };
    // half of the spawns whose stdin setting the builder accepts go through Exec::cmd(..).stdin(..).stdout(..).stderr(..).popen()
    let via_exec = kinds[0] != 4 && closed.is_empty() && (kinds[0] + kinds[1] * 2 + kinds[2]) % 2 == 1;
    let m = if via_exec {
        ctx.count("spawns_through_the_exec_builder", 1);
        let PopenConfig { stdin, stdout, stderr, .. } = config;
        let e = subprocess::Exec::cmd(&argv[0]).args(&argv[1..]);
        run::monitored(move || e.stdin(stdin).stdout(stdout).stderr(stderr).popen())
    } else {
        run::monitored(|| Popen::create(&argv, config))
    };
    let evs = m.events();
    let nforks = spawn::count_kind(&evs, k::FORK, false);
    let wit = |extra: J| J::obj().set("combination", J::s(&combo)).set("events", J::arr_s(&ilog::fmt_tail(&evs, 50))).set("detail", extra);
    if let Some(p) = &m.panic {
        viol.push((format!("C05/panic/{}", combo), "Popen::create panicked".into(), wit(J::s(p))));
        return Outcome { viol, valid: expect.is_some() };
    }
    match (m.result, expect) {
        (Some(Err(e)), None) => {
            ctx.count("refusals_seen", 1);
            if !matches!(e, PopenError::LogicError(_)) {
                viol.push((format!("C05/refusal-not-logic-error/{}", combo), "an invalid combination was refused, but not with a logic error".into(), wit(J::s(&format!("{:?}", e)))));
            }
            if nforks != 0 {
                viol.push((format!("C05/refused-after-fork/{}", combo), "an invalid combination was refused only after a process had been started".into(), wit(J::Null)));
            }
        }
        (Some(Ok(mut p)), None) => {
            if let Some(pid) = p.pid() {
                spawn::kill_now(pid as i32);
            }
            let _ = p.wait();
            viol.push((format!("C05/invalid-accepted/{}", combo), "a combination documented as invalid was accepted and a process was started".into(), wit(J::Null)));
        }
        (Some(Err(e)), Some(_)) => {
            viol.push((format!("C05/valid-refused/{}", combo), "a valid combination was refused".into(), wit(J::s(&format!("{:?}", e)))));
        }
        (Some(Ok(mut p)), Some(exp)) => {
            let pid = p.pid().unwrap_or(0) as i32;
            let fields = [p.stdin.as_ref(), p.stdout.as_ref(), p.stderr.as_ref()];
            for s in 0..3 {
                if fields[s].is_some() != (kinds[s] == 1) {
                    viol.push((
                        format!("C05/exposure/{}", combo),
                        format!("Popen field for stream {} is {} although the stream was {}piped", s, if fields[s].is_some() { "Some" } else { "None" }, if kinds[s] == 1 { "" } else { "not " }),
                        wit(J::Null),
                    ));
                }
            }
            let rep: Option<Report> = spawn::get_report(&exe, 4000);
            match rep {
                None => viol.push((format!("C05/no-report/{}", combo), "the child never reported (it did not start properly)".into(), wit(J::Null))),
                Some(r) => {
                    ctx.count("children_inspected", 1);
                    for s in 0..3usize {
                        let cf = match r.fds.iter().find(|f| f.fd == s as i32) {
                            Some(f) => f.clone(),
                            None => {
                                viol.push((format!("C05/stream-closed/{}", combo), format!("the child's fd {} is closed", s), wit(spawn::report_json(&r))));
                                continue;
                            }
                        };
                        let desc = |why: &str| format!("child stream {} is not the requested object: {}", s, why);
                        match exp[s] {
                            Target::Pipe(ps) => {
                                ctx.count("probes.pipe", 1);
                                let pino = fields[ps].map(|f| f.metadata().map(|m| m.ino()).unwrap_or(0)).unwrap_or(0);
                                let want_write = ps != 0;
                                if cf.pipe_ino() != Some(pino) || cf.writable() != want_write {
                                    viol.push((
                                        format!("C05/wiring/{}", combo),
                                        desc(&format!("expected the {} end of pipe:[{}], got {} (flags {:o})", if want_write { "write" } else { "read" }, pino, cf.target, cf.flflags)),
                                        wit(spawn::report_json(&r)),
                                    ));
                                }
                            }
                            Target::Obj(i) => {
                                ctx.count("probes.file", 1);
                                let o = &objs[i];
                                if cf.dev != o.dev || cf.ino != o.ino {
                                    viol.push((format!("C05/wiring/{}", combo), desc(&format!("expected inode {} got {} ({})", o.ino, cf.ino, cf.target)), wit(spawn::report_json(&r))));
                                } else if cf.off != o.init as i64 {
                                    viol.push((
                                        format!("C05/wiring/{}", combo),
                                        desc(&format!("same file but a different open file (offset {} instead of {})", cf.off, o.init)),
                                        wit(spawn::report_json(&r)),
                                    ));
                                }
                            }
                            Target::Inherit(n) => {
                                ctx.count("probes.inherited", 1);
                                let (t, _, _, _) = &std_before[n];
                                let st_ino = std::fs::metadata(format!("/proc/self/fd/{}", n)).map(|m| (m.dev(), m.ino())).unwrap_or((0, 0));
                                if (cf.dev, cf.ino) != st_ino || cf.off != 1000 * (n as i64 + 1) {
                                    viol.push((
                                        format!("C05/wiring/{}", combo),
                                        desc(&format!("expected the parent's own fd {} ({}, offset {}), got {} offset {}", n, t, 1000 * (n + 1), cf.target, cf.off)),
                                        wit(spawn::report_json(&r)),
                                    ));
                                }
                            }
                        }
                    }
                    // shared-offset probe: the child moved fd s by DELTA[s]; the very same open file must have moved with it
                    let mut moved_obj = vec![0i64; objs.len()];
                    let mut moved_inh = [0i64; 3];
                    for s in 0..3 {
                        match exp[s] {
                            Target::Obj(i) => moved_obj[i] += DELTA[s],
                            Target::Inherit(n) => moved_inh[n] += DELTA[s],
                            _ => {}
                        }
                    }
                    for (i, o) in objs.iter_mut().enumerate() {
                        let now = o.keeper.stream_position().unwrap_or(0) as i64;
                        ctx.count("offset_probes", 1);
                        if now != o.init as i64 + moved_obj[i] {
                            viol.push((
                                format!("C05/identity/{}", combo),
                                format!("shared-offset probe: the open file handed over as object {} moved to {} instead of {} (the child does not hold the very open file that was passed)", i, now, o.init as i64 + moved_obj[i]),
                                wit(spawn::report_json(&r)),
                            ));
                        }
                    }
                    for n in 0..3 {
                        if closed.contains(&n) {
                            continue;
                        }
                        let now = own_fd_state(n as i32).3;
                        ctx.count("offset_probes", 1);
                        if now != 1000 * (n as i64 + 1) + moved_inh[n] {
                            viol.push((
                                format!("C05/identity/{}", combo),
                                format!("shared-offset probe: the parent's own fd {} moved to {} instead of {}", n, now, 1000 * (n as i64 + 1) + moved_inh[n]),
                                wit(spawn::report_json(&r)),
                            ));
                        }
                    }
                }
            }
            spawn::kill_now(pid);
            let _ = p.wait();
            drop(p);
        }
        (None, _) => {}
    }
    if !closed.is_empty() {
        // let go of the files that may sit on the low numbers, then put the parent's own descriptors back
        let _hole_guard = crate::inspect::proc_guard();
        drop(objs);
        for (s, keep) in saved_fd {
            unsafe {
                libc::syscall(libc::SYS_dup3, keep, s as i32, 0);
                libc::syscall(libc::SYS_close, keep);
            }
        }
        return Outcome { viol, valid: expect.is_some() };
    }
    // the parent's own standard streams must be untouched
    ctx.count("parent_stream_audits", 1);
    let touched = parent_touches_std(&evs);
    if !touched.is_empty() {
        viol.push((format!("C05/parent-std-touched/{}", combo), "spawning closed or altered the parent's own standard streams".into(), wit(J::arr_s(&touched))));
    }
    for fd in 0..3 {
        let now = own_fd_state(fd);
        let b = &std_before[fd as usize];
        if now.0 != b.0 || now.1 != b.1 || now.2 != b.2 {
            viol.push((
                format!("C05/parent-std-changed/{}", combo),
                format!("the parent's fd {} changed: {:?} -> {:?}", fd, (&b.0, b.1, b.2), (&now.0, now.1, now.2)),
                wit(J::Null),
            ));
        }
    }
    Outcome { viol, valid: expect.is_some() }
}

fn report_all(ctx: &mut Ctx, o: Outcome) {
    for (sig, what, w) in o.viol {
        ctx.violation(&sig, &what, w);
    }
}

/// Commands of a pipeline: the end settings of the pipeline (stdin of the first, stdout of the last, the shared
/// stderr file of all) are wired like those of a single command, however the pipeline was put together.
fn pipeline_ends(ctx: &mut Ctx, rng: &mut crate::rng::Rng, _i: u64) {
    use subprocess::{Exec, Pipeline};
    run::begin_case();
    let dir = ctx.scratch("c05p");
    let n = rng.range(2, 5) as usize;
    let exes: Vec<std::path::PathBuf> = (0..n).map(|j| spawn::report_exe(ctx, &dir, &format!("q{}", j), "x")).collect();
    let mut cmds: Vec<Exec> = exes.iter().map(Exec::cmd).collect();
    let mk = |name: &str| -> File {
        let p = dir.join(name);
        std::fs::write(&p, vec![b'.'; 256]).unwrap();
        std::fs::OpenOptions::new().read(true).write(true).open(&p).unwrap()
    };
    let sink = mk("stderr-sink");
    let sink_id = sink.metadata().map(|m| (m.dev(), m.ino())).unwrap();
    let infile = mk("stdin-file");
    let in_id = infile.metadata().map(|m| (m.dev(), m.ino())).unwrap();
    let outfile = mk("stdout-file");
    let out_id = outfile.metadata().map(|m| (m.dev(), m.ino())).unwrap();
    // where in the construction each end is configured: on the left operand before composing, or on the result
    let shape = rng.below(4);
    let early_err = rng.chance(500);
    let early_in = rng.chance(500);
    let mut sink_o = Some(sink);
    let mut in_o = Some(infile);
    let mut out_o = Some(outfile);
    let mut pl: Pipeline;
    let desc;
    match shape {
        0 => {
            pl = Pipeline::from_exec_iter(cmds);
            desc = "from_exec_iter".to_string();
        }
        1 => {
            let rest = cmds.split_off(2);
            let mut it = cmds.into_iter();
            pl = it.next().unwrap() | it.next().unwrap();
            if early_err {
                pl = pl.stderr_to(sink_o.take().unwrap());
            }
            if early_in {
                pl = pl.stdin(in_o.take().unwrap());
            }
            for c in rest {
                pl = pl | c;
            }
            desc = format!("(a|b){}{}|c...", if early_err { ".stderr_to" } else { "" }, if early_in { ".stdin" } else { "" });
        }
        2 if n >= 4 => {
            let right = cmds.split_off(2);
            let mut it = cmds.into_iter();
            pl = it.next().unwrap() | it.next().unwrap();
            if early_err {
                pl = pl.stderr_to(sink_o.take().unwrap());
            }
            if early_in {
                pl = pl.stdin(in_o.take().unwrap());
            }
            let mut r = Pipeline::from_exec_iter(right);
            if rng.chance(500) {
                r = r.stdout(out_o.take().unwrap());
            }
            pl = pl | r;
            desc = format!("(a|b){}{}|(c|d..){}", if early_err { ".stderr_to" } else { "" }, if early_in { ".stdin" } else { "" }, if out_o.is_none() { ".stdout" } else { "" });
        }
        _ => {
            let mut it = cmds.into_iter();
            pl = it.next().unwrap() | it.next().unwrap();
            for c in it {
                pl = pl | c;
            }
            desc = "a|b|c...".to_string();
        }
    }
    if let Some(f) = sink_o.take() {
        pl = pl.stderr_to(f);
    }
    if let Some(f) = in_o.take() {
        pl = pl.stdin(f);
    }
    if let Some(f) = out_o.take() {
        pl = pl.stdout(f);
    }
    let cloned = rng.chance(300);
    if cloned {
        pl = pl.clone();
    }
    let via_popen = rng.chance(500);
    let m = run::monitored(move || {
        if via_popen {
            pl.popen().map(|mut v| {
                for p in v.iter_mut() {
                    let _ = p.wait();
                }
            })
        } else {
            pl.join().map(|_| ())
        }
    });
    ctx.count("pipelines_whose_ends_were_inspected", 1);
    ctx.count("spawn_attempts", n as i64);
    let wit = |extra: J| J::obj().set("construction", J::s(&format!("{}{} ({} commands)", desc, if cloned { ", cloned" } else { "" }, n))).set("result", J::s(&format!("{:?} {:?}", m.result.as_ref().map(|r| r.as_ref().map_err(|e| e.to_string())), m.panic))).set("detail", extra);
    if !matches!(m.result, Some(Ok(()))) {
        ctx.violation("C05/pipeline/failed", "a valid pipeline was not run", wit(J::Null));
        run::end_case();
        return;
    }
    let reps: Vec<Option<Report>> = exes.iter().map(|e| spawn::get_report(e, 3000)).collect();
    for (j, r) in reps.iter().enumerate() {
        let r = match r {
            Some(r) => r,
            None => {
                ctx.violation("C05/pipeline/no-report", &format!("command {} of the pipeline did not report", j), wit(J::Null));
                continue;
            }
        };
        ctx.count("children_inspected", 1);
        let fd = |k: i32| r.fds.iter().find(|f| f.fd == k).cloned();
        // the shared stderr file reaches every command
        ctx.count("probes.file", 1);
        match fd(2) {
            Some(f) if (f.dev, f.ino) == sink_id => {}
            other => ctx.violation(&format!("C05/pipeline/stderr-not-the-given-file/{}", if early_err { "set-before-composing" } else { "set-on-the-result" }), &format!("command {} of the pipeline does not have the file given to stderr_to() as its stderr", j), wit(J::s(&format!("{:?}", other.map(|f| f.target))))),
        }
        if j == 0 {
            ctx.count("probes.file", 1);
            match fd(0) {
                Some(f) if (f.dev, f.ino) == in_id => {}
                other => ctx.violation(&format!("C05/pipeline/stdin-not-the-given-file/{}", if early_in { "set-before-composing" } else { "set-on-the-result" }), "the first command does not have the file given to stdin() as its stdin", wit(J::s(&format!("{:?}", other.map(|f| f.target))))),
            }
        }
        if j + 1 == n {
            ctx.count("probes.file", 1);
            match fd(1) {
                Some(f) if (f.dev, f.ino) == out_id => {}
                other => ctx.violation("C05/pipeline/stdout-not-the-given-file", "the last command does not have the file given to stdout() as its stdout", wit(J::s(&format!("{:?}", other.map(|f| f.target))))),
            }
        } else if let (Some(o), Some(Some(next))) = (fd(1), reps.get(j + 1)) {
            // stage j's stdout is the pipe stage j+1 reads
            ctx.count("probes.pipe", 1);
            let nin = next.fds.iter().find(|f| f.fd == 0).and_then(|f| f.pipe_ino());
            if o.pipe_ino().is_none() || o.pipe_ino() != nin {
                ctx.violation("C05/pipeline/inter-command-pipe", &format!("stdout of command {} and stdin of command {} are not the two ends of one pipe", j, j + 1), wit(J::s(&format!("{} vs {:?}", o.target, nin))));
            }
        }
    }
    ctx.distinct(&format!("pl|{}|{}|{}|{}", n, desc, cloned, via_popen));
    run::end_case();
}

/// capture() and communicate() pipe stdout on the caller's behalf only when neither output stream was configured;
/// whatever the caller did configure is wired as requested and what was left alone is inherited.
fn capture_defaults(ctx: &mut Ctx, rng: &mut crate::rng::Rng, i: u64) {
    use subprocess::{Exec, NullFile};
    run::begin_case();
    let dir = ctx.scratch("c05d");
    let exe = spawn::report_exe(ctx, &dir, "d", "x");
    let settings = ["unset", "Pipe", "File", "NullFile", "Merge"];
    // (stdout, stderr): one of them configured, or none
    let combos: [(usize, usize); 9] = [(0, 0), (0, 1), (0, 2), (0, 3), (0, 4), (1, 0), (2, 0), (3, 0), (2, 4)];
    let (so, se) = combos[(i % 9) as usize];
    let mk = |name: &str| -> File {
        let p = dir.join(name);
        std::fs::write(&p, b"....").unwrap();
        std::fs::OpenOptions::new().read(true).write(true).open(&p).unwrap()
    };
    let fout = mk("out-file");
    let ferr = mk("err-file");
    let id = |f: &File| f.metadata().map(|m| (m.dev(), m.ino())).unwrap();
    let (out_id, err_id) = (id(&fout), id(&ferr));
    let own = |n: i32| std::fs::metadata(format!("/proc/self/fd/{}", n)).map(|m| (m.dev(), m.ino())).unwrap_or((0, 0));
    let (own1, own2) = (own(1), own(2));
    let mut e = Exec::cmd(&exe);
    e = match so { 1 => e.stdout(Redirection::Pipe), 2 => e.stdout(fout), 3 => e.stdout(NullFile), _ => e };
    e = match se { 1 => e.stderr(Redirection::Pipe), 2 => e.stderr(ferr), 3 => e.stderr(NullFile), 4 => e.stderr(Redirection::Merge), _ => e };
    if rng.chance(300) {
        e = e.clone();
    }
    let via_capture = rng.chance(500);
    let m = run::monitored(move || -> Result<(bool, bool), String> {
        if via_capture {
            e.capture().map(|_| (true, true)).map_err(|e| e.to_string())
        } else {
            let mut c = e.communicate().map_err(|e| e.to_string())?;
            let (o, er) = c.read().map_err(|e| e.to_string())?;
            Ok((o.is_some(), er.is_some()))
        }
    });
    ctx.count("spawn_attempts", 1);
    ctx.count("captures_with_partly_configured_outputs", 1);
    let combo = format!("stdout={}/stderr={}/{}", settings[so], settings[se], if via_capture { "capture" } else { "communicate" });
    ctx.distinct(&format!("capdef|{}", combo));
    let wit = |extra: J| J::obj().set("configured", J::s(&combo)).set("result", J::s(&format!("{:?} {:?}", m.result, m.panic))).set("detail", extra);
    let rep = match (&m.result, spawn::get_report(&exe, 3000)) {
        (Some(Ok(_)), Some(r)) => r,
        _ => {
            ctx.violation(&format!("C05/capture-defaults/failed/{}", combo), "a valid capture/communicate did not run the command", wit(J::Null));
            run::end_case();
            return;
        }
    };
    ctx.count("children_inspected", 1);
    let fd = |k: i32| rep.fds.iter().find(|f| f.fd == k).cloned();
    let null_id = std::fs::metadata("/dev/null").map(|m| (m.dev(), m.ino())).unwrap();
    let piped_by_default = so == 0 && se == 0;
    // what stdout must be
    let want1: Option<(u64, u64)> = match so { 0 if piped_by_default => None, 0 => Some(own1), 1 => None, 2 => Some(out_id), _ => Some(null_id) };
    let got1 = fd(1);
    let ok1 = match (&got1, want1) {
        (Some(f), None) => f.pipe_ino().is_some(),
        (Some(f), Some(idw)) => (f.dev, f.ino) == idw,
        _ => false,
    };
    if !ok1 {
        ctx.violation(&format!("C05/capture-defaults/stdout/{}", combo), "the child's stdout is not what the configuration says (piped for the caller only when neither output was configured; otherwise as configured, or inherited)", wit(J::s(&format!("{:?}", got1.as_ref().map(|f| f.target.clone())))));
    }
    let want2: Option<(u64, u64)> = match se { 0 => Some(own2), 1 => None, 2 => Some(err_id), 3 => Some(null_id), _ => want1.or(Some((0, 0))) };
    let got2 = fd(2);
    let ok2 = match (&got2, want2, se) {
        // merged: the same object as stdout, whatever that is
        (Some(f), _, 4) => got1.as_ref().map(|g| (g.dev, g.ino) == (f.dev, f.ino)).unwrap_or(false),
        (Some(f), None, _) => f.pipe_ino().is_some(),
        (Some(f), Some(idw), _) => (f.dev, f.ino) == idw,
        _ => false,
    };
    if !ok2 {
        ctx.violation(&format!("C05/capture-defaults/stderr/{}", combo), "the child's stderr is not what the configuration says", wit(J::s(&format!("{:?}", got2.map(|f| f.target)))));
    }
    // communicate(): a stream is reported iff it was piped
    if let Some(Ok((has_out, has_err))) = &m.result {
        if !via_capture {
            let exp_out = piped_by_default || so == 1;
            let exp_err = se == 1;
            if *has_out != exp_out || *has_err != exp_err {
                ctx.violation(&format!("C05/exposure/capture-defaults/{}", combo), &format!("communicate().read() reported stdout={} stderr={}, piped were stdout={} stderr={}", has_out, has_err, exp_out, exp_err), wit(J::Null));
            }
        }
    }
    run::end_case();
}

pub fn run(ctx: &mut Ctx) {
    let ncd = ctx.n(180, 3600);
    ctx.family("capture-defaults", ncd, capture_defaults);
    let npl = ctx.n(300, 6000);
    ctx.family("pipeline-ends", npl, pipeline_ends);
    ctx.max("combinations_total", 125);
    // every combination, distinct files and shared files, twice in a row on the same thread
    ctx.family("combos", 250, |ctx, _rng, i| {
        let c = (i % 125) as usize;
        let kinds = [c / 25, (c / 5) % 5, c % 5];
        let shared = i >= 125;
        run::begin_case();
        let dir = ctx.scratch("c05");
        let o = one_spawn(ctx, kinds, shared, &dir, "a");
        let valid = o.valid;
        report_all(ctx, o);
        // repeated spawn on the same thread (the cached standard streams are reused)
        let o2 = one_spawn(ctx, kinds, shared, &dir, "b");
        report_all(ctx, o2);
        ctx.count("spawn_attempts", 2);
        ctx.count("combinations_run", 1);
        if valid {
            ctx.distinct(&format!("{:?}{}", kinds, shared));
        }
        if i < 3 {
            ctx.sample(J::obj().set("stdin", J::s(KINDS[kinds[0]])).set("stdout", J::s(KINDS[kinds[1]])).set("stderr", J::s(KINDS[kinds[2]])).set("shared_files", J::Bool(shared)));
        }
        run::end_case();
    });
    // the file handed over for a stream already has that stream's descriptor number in the parent
    let nclosed = ctx.n(240, 6000);
    ctx.family("parent-fd-closed", nclosed, |ctx, rng, i| {
        let s = (i % 3) as usize;
        let mut kinds = [rng.below(4) as usize, rng.below(5) as usize, rng.below(5) as usize];
        kinds[s] = 2 + ((i / 3) % 2) as usize; // File or RcFile on the closed descriptor
        if kinds[1] == 4 && kinds[2] == 4 {
            kinds[if s == 1 { 2 } else { 1 }] = 1;
        }
        // None on another stream is fine (inherited); Merge onto the stream that sits on the closed number is interesting too
        let shared = rng.chance(300);
        run::begin_case();
        let dir = ctx.scratch("c05c");
        let o = one_spawn_x(ctx, kinds, shared, &dir, "c", &Layout { closed: vec![s], order: vec![], holes_at_spawn: false });
        report_all(ctx, o);
        ctx.count("spawn_attempts", 1);
        ctx.count("spawns_with_a_stream_file_on_its_own_descriptor_number", 1);
        ctx.distinct(&format!("closed{}{:?}{}", s, kinds, shared));
        run::end_case();
    });
    // any subset of the parent's standard descriptors is closed (a daemon): the files handed over then sit on low numbers,
    // possibly on the number of *another* stream, or - opened before the descriptors were closed - leave 0/1/2 free for
    // the pipes the library creates itself
    let nlay = ctx.n(600, 12_000);
    ctx.family("parent-descriptor-layouts", nlay, |ctx, rng, i| {
        let subsets: [&[usize]; 7] = [&[0], &[1], &[2], &[0, 1], &[0, 2], &[1, 2], &[0, 1, 2]];
        let closed: Vec<usize> = subsets[(i % 7) as usize].to_vec();
        let holes_at_spawn = (i / 7) % 2 == 1;
        // a closed descriptor cannot be inherited: its stream is piped, a file, or merged
        let mut kinds = [0usize; 3];
        for s in 0..3 {
            kinds[s] = if closed.contains(&s) { *rng.pick(if s == 0 { &[1usize, 2, 3][..] } else { &[1usize, 2, 3, 4][..] }) } else { rng.below(if s == 0 { 4 } else { 5 }) as usize };
        }
        if kinds[1] == 4 && kinds[2] == 4 {
            kinds[1 + rng.below(2) as usize] = 1 + rng.below(3) as usize;
        }
        let mut order = vec![0, 1, 2];
        rng.shuffle(&mut order);
        let shared = rng.chance(200);
        run::begin_case();
        let dir = ctx.scratch("c05l");
        let lay = Layout { closed: closed.clone(), order: order.clone(), holes_at_spawn };
        let o = one_spawn_x(ctx, kinds, shared, &dir, "l", &lay);
        report_all(ctx, o);
        ctx.count("spawn_attempts", 1);
        ctx.count("spawns_under_a_parent_descriptor_layout_with_closed_standard_streams", 1);
        ctx.distinct(&format!("layout{:?}{:?}{:?}{}{}", closed, order, kinds, shared, holes_at_spawn));
        run::end_case();
    });
    // the parent re-points one of its own standard streams between two spawns on the same thread (log rotation,
    // daemonising): "inherited" and "merged onto inherited" must mean the stream as it is *now*
    let nrep = ctx.n(120, 1200);
    ctx.family("repointed-std", nrep, |ctx, rng, i| {
        let s = 1 + (i % 2) as usize; // stdout or stderr
        let other = 3 - s;
        let mut kinds = [rng.below(4) as usize, 0, 0];
        kinds[other] = if rng.chance(700) { 4 } else { 0 }; // the other output stream merged onto this one, or inherited too
        run::begin_case();
        let dir = ctx.scratch("c05r");
        let o = one_spawn(ctx, kinds, false, &dir, "r1");
        report_all(ctx, o);
        // re-point fd s to a fresh file
        let newf = std::fs::OpenOptions::new().create(true).read(true).write(true).open(dir.join("rotated.log")).unwrap();
        let saved = unsafe { libc::syscall(libc::SYS_fcntl, s as i32, libc::F_DUPFD_CLOEXEC, 100) as i32 };
        unsafe { libc::syscall(libc::SYS_dup3, newf.as_raw_fd(), s as i32, 0) };
        drop(newf);
        let o2 = one_spawn(ctx, kinds, false, &dir, "r2");
        report_all(ctx, o2);
        unsafe {
            libc::syscall(libc::SYS_dup3, saved, s as i32, 0);
            libc::syscall(libc::SYS_close, saved);
        }
        ctx.count("spawn_attempts", 2);
        ctx.count("spawns_after_the_parent_repointed_a_stream", 1);
        ctx.distinct(&format!("repoint{}{:?}", s, kinds));
        run::end_case();
    });
    // spawns from short-lived threads: the thread exits (TLS destructors run), then the parent's streams are re-checked
    let nthr = ctx.n(320, 6000);
    ctx.family("threads", nthr, |ctx, rng, i| {
        // combinations that touch the inherited streams through Merge, and a few others
        let merges: [[usize; 3]; 8] = [[0, 0, 4], [0, 4, 0], [1, 0, 4], [0, 4, 1], [2, 0, 4], [0, 4, 3], [0, 1, 4], [0, 4, 2]];
        let kinds = if i % 3 == 2 { [rng.below(4) as usize, rng.below(5) as usize, rng.below(4) as usize] } else { merges[(i as usize / 3) % merges.len()] };
        run::begin_case();
        let dir = ctx.scratch("c05t");
        let before: Vec<_> = (0..3).map(own_fd_state).collect();
        let nspawn = 1 + (i % 3) as usize;
        // the thread body needs the context; run it on a scoped thread and hand the context over
        let viols: Vec<(String, String, J)> = std::thread::scope(|sc| {
            let h = sc.spawn(|| {
                let mut all = vec![];
                for j in 0..nspawn {
                    let o = one_spawn(ctx, kinds, j % 2 == 1, &dir, &format!("t{}", j));
                    all.extend(o.viol);
                }
                all
            });
            h.join().unwrap_or_default()
        });
        for (sig, what, w) in viols {
            ctx.violation(&sig, &what, w);
        }
        ctx.count("spawn_attempts", nspawn as i64);
        ctx.count("thread_exit_audits", 1);
        for fd in 0..3 {
            let now = own_fd_state(fd);
            let b = &before[fd as usize];
            if now.0 != b.0 || now.1 != b.1 || now.2 != b.2 {
                ctx.violation(
                    &format!("C05/parent-std-after-thread-exit/fd{}", fd),
                    &format!("after a spawning thread exited the parent's fd {} changed: {} -> {}", fd, b.0, now.0),
                    J::obj().set("combination", J::s(&format!("{:?}", kinds))),
                );
            }
        }
        ctx.distinct(&format!("thread{:?}{}", kinds, nspawn));
        run::end_case();
    });
}
