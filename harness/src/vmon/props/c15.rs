// C15 — program lookup follows PATH order and never runs something else.
// Every candidate is a hard link of vchild that records which file is running, so the
// winner is known by observation; the generator knows which candidates are startable.

use crate::ilog::{self, k};
use crate::json::J;
use crate::rng::Rng;
use crate::run::{self, Ctx};
use crate::spawn;
use std::ffi::OsString;
use std::os::unix::fs::PermissionsExt;
use std::path::{Path, PathBuf};
use subprocess::{Popen, PopenConfig, PopenError};

#[derive(Clone, Copy, Debug, PartialEq)]
enum Cand {
    Exec,
    NoExec,
    Dir,
    Dangling,
    Text,
    Missing,
    Busy, // a real program that is open for writing while the launch runs: execve fails with ETXTBSY, the search must go on
}

#[derive(Clone, Debug)]
enum Entry {
    Dir(usize, Cand), // directory #i holding a candidate of this kind
    Empty,
    MissingDir,
    FileAsDir,
    Dup(usize), // repeats entry #j
    TooLong,
    Relative(usize, Cand), // directory given relative to the child's cwd
}

fn make_cand(ctx: &Ctx, dir: &Path, name: &str, c: Cand) -> Option<std::fs::File> {
    let p = dir.join(name);
    match c {
        Cand::Busy => {
            // a private copy (never a link: the busy state belongs to the file, and vchild itself must stay startable)
            std::fs::copy(&ctx.vchild, &p).unwrap();
            return std::fs::OpenOptions::new().append(true).open(&p).ok();
        }
        Cand::Exec => {
            if std::fs::hard_link(&ctx.vchild, &p).is_err() {
                std::fs::copy(&ctx.vchild, &p).unwrap();
            }
        }
        Cand::NoExec => {
            // (the permission check comes before the format check: the content does not matter)
            std::fs::write(&p, b"#!/bin/true\n").unwrap();
            std::fs::set_permissions(&p, std::fs::Permissions::from_mode(0o644)).unwrap();
        }
        Cand::Dir => std::fs::create_dir_all(&p).unwrap(),
        Cand::Dangling => {
            let _ = std::os::unix::fs::symlink(dir.join("nowhere-target"), &p);
        }
        Cand::Text => {
            std::fs::write(&p, b"this is not an executable format\n").unwrap();
            std::fs::set_permissions(&p, std::fs::Permissions::from_mode(0o755)).unwrap();
        }
        Cand::Missing => {}
    }
    None
}

fn path_case(ctx: &mut Ctx, rng: &mut Rng, i: u64, only_empty: bool) {
    run::begin_case();
    let root = ctx.scratch("c15");
    let cwd = root.join("cwd");
    std::fs::create_dir_all(&cwd).unwrap();
    let name_len = match rng.below(6) { 0 => 1, 1 => 255, 2 => rng.range(100, 254), _ => rng.range(2, 20) } as usize;
    let name: String = (0..name_len).map(|j| if j == 0 { 'p' } else { *rng.pick(&['a', 'b', '-', '.', '_', ' ', 'Z', '9']) }).collect();
    let nent = if only_empty { 0 } else { match rng.below(8) { 0 => rng.range(20, 40), 1 => 1, _ => rng.range(1, 8) } } as usize;
    let mut entries: Vec<Entry> = vec![];
    let mut ndirs = 0;
    for _ in 0..nent {
        let cand = *rng.pick(&[Cand::Exec, Cand::NoExec, Cand::Dir, Cand::Dangling, Cand::Text, Cand::Missing, Cand::Missing, Cand::Exec, Cand::Busy]);
        let e = match rng.below(12) {
            0 => Entry::Empty,
            1 => Entry::MissingDir,
            2 => Entry::FileAsDir,
            3 if !entries.is_empty() => Entry::Dup(rng.below(entries.len() as u64) as usize),
            4 => Entry::TooLong,
            5 => {
                ndirs += 1;
                Entry::Relative(ndirs - 1, cand)
            }
            _ => {
                ndirs += 1;
                Entry::Dir(ndirs - 1, cand)
            }
        };
        entries.push(e);
    }
    // sprinkle empty entries anywhere (leading, trailing, doubled)
    let mut parts: Vec<(String, Option<(PathBuf, Cand)>)> = vec![]; // (PATH text, what the candidate under it is)
    let mut resolved: Vec<(String, Option<(PathBuf, Cand)>)> = vec![];
    let mut held: Vec<std::fs::File> = vec![]; // write handles that keep the busy candidates busy until the launch has returned
    for e in &entries {
        let item = match e {
            Entry::Empty => ("".to_string(), None),
            Entry::MissingDir => (root.join("no-such-dir").to_string_lossy().into_owned(), Some((root.join("no-such-dir").join(&name), Cand::Missing))),
            Entry::FileAsDir => {
                let f = root.join("plainfile");
                std::fs::write(&f, b"x").unwrap();
                (f.to_string_lossy().into_owned(), Some((f.join(&name), Cand::Missing)))
            }
            Entry::TooLong => {
                let s = format!("{}/{}", root.display(), "L".repeat(5000));
                (s.clone(), Some((PathBuf::from(s).join(&name), Cand::Missing)))
            }
            Entry::Dup(j) => resolved[*j].clone(),
            Entry::Dir(d, c) => {
                let dir = root.join(format!("d{}", d));
                std::fs::create_dir_all(&dir).unwrap();
                held.extend(make_cand(ctx, &dir, &name, *c));
                (dir.to_string_lossy().into_owned(), Some((dir.join(&name), *c)))
            }
            Entry::Relative(d, c) => {
                let dir = cwd.join(format!("r{}", d));
                std::fs::create_dir_all(&dir).unwrap();
                held.extend(make_cand(ctx, &dir, &name, *c));
                (format!("r{}", d), Some((dir.join(&name), *c)))
            }
        };
        resolved.push(item.clone());
        parts.push(item);
    }
    let mut path_text: String = parts.iter().map(|p| p.0.clone()).collect::<Vec<_>>().join(":");
    if only_empty || path_text.is_empty() {
        // (an empty PATH value is outside the property's quantifier: "for all non-empty PATH values")
        path_text = ":".repeat(rng.range(1, 5) as usize);
    } else {
        if rng.chance(300) {
            path_text = format!(":{}", path_text);
        }
        if rng.chance(300) {
            path_text.push(':');
        }
    }
    // a decoy in the child's cwd: must never be picked up through an empty entry
    let _ = make_cand(ctx, &cwd, &name, Cand::Exec);
    // expected winner: first entry whose candidate can be started
    let winner: Option<PathBuf> = parts.iter().filter_map(|p| p.1.clone()).find(|(_, c)| *c == Cand::Exec).map(|(p, _)| p);
    let use_executable = rng.chance(300);
    let use_env = rng.chance(300); // the child's environment (with another PATH) must not influence the lookup
    let out = root.join("winner.txt");
    let argv: Vec<OsString> = if use_executable {
        vec![OsString::from("argv0-is-something-else"), "whoami".into(), out.clone().into_os_string()]
    } else {
        vec![OsString::from(&name), "whoami".into(), out.clone().into_os_string()]
    };
    let decoy_dir = root.join("childenv");
    std::fs::create_dir_all(&decoy_dir).unwrap();
    let _ = make_cand(ctx, &decoy_dir, &name, Cand::Exec);
    let config = PopenConfig {
        executable: if use_executable { Some(OsString::from(&name)) } else { None },
        cwd: Some(cwd.clone().into_os_string()),
        env: if use_env { Some(vec![(OsString::from("PATH"), decoy_dir.clone().into_os_string())]) } else { None },
        ..Default::default()
    };
    let old = std::env::var_os("PATH");
    // PATH is a byte string: in some cases an extra (missing) entry holds bytes that are not valid UTF-8
    let path_os: OsString = if rng.chance(250) {
        use std::os::unix::ffi::OsStringExt;
        let mut b = b"/nonexistent-\xff\xfe/dir:".to_vec();
        b.extend_from_slice(path_text.as_bytes());
        ctx.count("path_values_with_non_utf8_bytes", 1);
        OsString::from_vec(b)
    } else {
        OsString::from(&path_text)
    };
    std::env::set_var("PATH", &path_os);
    // the ways to say the same launch: the config as built, a copy of it, the Exec builder, a copy of the builder
    let route = match rng.below(8) { 0 | 1 => "config-copy", 2 if !use_executable => "exec-builder", 3 if !use_executable => "exec-builder-copy", _ => "config" };
    ctx.count(&format!("route.{}", route), 1);
    let m = run::monitored(|| match route {
        "config" => Popen::create(&argv, config),
        "config-copy" => {
            let copy = config.try_clone().expect("try_clone");
            drop(config);
            Popen::create(&argv, copy)
        }
        _ => {
            let mut e = subprocess::Exec::cmd(&argv[0]).args(&argv[1..]).cwd(&cwd);
            if use_env {
                e = e.env_clear().env("PATH", &decoy_dir);
            }
            if route == "exec-builder-copy" {
                e = e.clone();
            }
            e.popen()
        }
    });
    match old {
        Some(p) => std::env::set_var("PATH", p),
        None => std::env::remove_var("PATH"),
    }
    ctx.count("busy_candidates_held_open_for_writing", held.len() as i64);
    drop(held);
    let evs = m.events();
    let attempts: Vec<(i32, i64)> = evs.iter().filter(|e| e.child != 0 && (e.kind == k::EXECVE || e.kind == k::EXECV)).map(|e| (e.err, e.a[0])).collect();
    let shape = format!("{}{}{}", if only_empty { "only-empty-path" } else { "path" }, if use_executable { "+executable" } else { "" }, if route == "config" { "".to_string() } else { format!("/{}", route) });
    let wit = |extra: J| {
        J::obj()
            .set("PATH", J::Str(crate::json::show_bytes(path_text.as_bytes(), 400)))
            .set("command", J::s(&name))
            .set("entries", J::Arr(parts.iter().map(|p| J::s(&format!("{:?} -> {:?}", crate::json::show_bytes(p.0.as_bytes(), 60), p.1.as_ref().map(|x| x.1)))).collect()))
            .set("expected_winner", J::s(&format!("{:?}", winner)))
            .set("exec_attempts(errno,pathlen)", J::s(&format!("{:?}", attempts)))
            .set("detail", extra)
    };
    ctx.count("path_cases", 1);
    ctx.count("exec_attempts_observed", attempts.len() as i64);
    let child_panics = ilog::shared().map(|s| s.child_panics.load(std::sync::atomic::Ordering::SeqCst)).unwrap_or(0);
    if child_panics > 0 {
        ctx.violation(&format!("C15/child-panic/{}", shape), "library code panicked in the forked child during lookup", wit(J::Null));
    }
    match m.result {
        None => ctx.violation(&format!("C15/panic/{}", shape), "Popen::create panicked", wit(J::s(m.panic.as_deref().unwrap_or("")))),
        Some(Ok(mut p)) => {
            let _ = p.wait();
            let ran: Vec<String> = std::fs::read_to_string(&out).unwrap_or_default().lines().map(|s| s.to_string()).collect();
            match &winner {
                Some(w) => {
                    ctx.count("winners_verified", 1);
                    if ran.len() != 1 || Path::new(&ran[0]) != w.as_path() {
                        ctx.violation(
                            &format!("C15/wrong-winner/{}", shape),
                            "a different program ran than the first startable candidate in PATH order",
                            wit(J::arr_s(&ran)),
                        );
                    }
                }
                None => ctx.violation(
                    &format!("C15/ran-something/{}{}", shape, if only_empty { "/empty-path" } else { "" }),
                    "nothing can be started under this PATH, yet the launch succeeded",
                    wit(J::arr_s(&ran)),
                ),
            }
        }
        Some(Err(e)) => {
            ctx.count("error_cases", 1);
            if out.exists() {
                ctx.violation(&format!("C15/err-but-ran/{}", shape), "an error was returned but a candidate did run", wit(J::Null));
            }
            match (&winner, &e) {
                (Some(_), _) => ctx.violation(&format!("C15/missed-winner/{}", shape), &format!("a startable candidate exists but the launch failed: {:?}", e), wit(J::Null)),
                (None, PopenError::IoError(io)) => {
                    let code = io.raw_os_error();
                    let ok = match code {
                        Some(c) => attempts.iter().any(|a| a.0 == c) || (attempts.is_empty() && c > 0),
                        None => false,
                    };
                    if !ok {
                        ctx.violation(&format!("C15/wrong-error/{}", shape), &format!("the error {:?} is not the operating-system error of any candidate", code), wit(J::Null));
                    }
                }
                (None, other) => ctx.violation(&format!("C15/not-os-error/{}", shape), &format!("failure is not an operating-system error: {:?}", other), wit(J::Null)),
            }
        }
    }
    let kinds: Vec<String> = entries.iter().map(|e| format!("{:?}", e)).collect();
    ctx.distinct(&format!("{}|{}|{}", shape, kinds.join(","), name_len));
    if i < 2 {
        ctx.sample(J::obj().set("PATH_entries", J::arr_s(&kinds)).set("command_length", J::i(name_len as i64)).set("via_executable", J::Bool(use_executable)));
    }
    run::end_case();
}

fn slash_case(ctx: &mut Ctx, rng: &mut Rng, _i: u64) {
    // a name containing a slash is used as given, relative to the child's cwd, with no search
    run::begin_case();
    let root = ctx.scratch("c15s");
    let cwd = root.join("cwd");
    let sub = cwd.join("sub");
    std::fs::create_dir_all(&sub).unwrap();
    let pathdir = root.join("pd");
    std::fs::create_dir_all(pathdir.join("sub")).unwrap();
    let present = rng.chance(600);
    let absolute = rng.chance(300);
    if present {
        let _ = make_cand(ctx, &sub, "prog", Cand::Exec);
    }
    // decoys that a PATH search for "sub/prog" or "prog" would find
    let _ = make_cand(ctx, &pathdir.join("sub"), "prog", Cand::Exec);
    let _ = make_cand(ctx, &pathdir, "prog", Cand::Exec);
    let out = root.join("winner.txt");
    let name = if absolute { sub.join("prog").to_string_lossy().into_owned() } else { rng.pick(&["sub/prog", "./sub/prog", "sub//prog"]).to_string() };
    let use_executable = rng.chance(300);
    let argv: Vec<OsString> = vec![if use_executable { OsString::from("prog") } else { OsString::from(&name) }, "whoami".into(), out.clone().into_os_string()];
    let config = PopenConfig { executable: if use_executable { Some(OsString::from(&name)) } else { None }, cwd: Some(cwd.clone().into_os_string()), ..Default::default() };
    let old = std::env::var_os("PATH");
    std::env::set_var("PATH", &pathdir);
    let copy = rng.chance(300);
    let m = run::monitored(|| if copy { Popen::create(&argv, config.try_clone().expect("try_clone")) } else { Popen::create(&argv, config) });
    match old {
        Some(p) => std::env::set_var("PATH", p),
        None => std::env::remove_var("PATH"),
    }
    let evs = m.events();
    // exec attempts are counted before the call (a successful exec never returns to be logged)
    let attempts = ilog::shared().map(|s| s.child_exec_attempts.load(std::sync::atomic::Ordering::SeqCst)).unwrap_or(0);
    ctx.count("slash_cases", 1);
    let wit = J::obj().set("name", J::s(&name)).set("present", J::Bool(present)).set("events", J::arr_s(&ilog::fmt_tail(&evs, 25)));
    match m.result {
        Some(Ok(mut p)) => {
            let _ = p.wait();
            let ran = std::fs::read_to_string(&out).unwrap_or_default();
            let want = std::fs::canonicalize(sub.join("prog")).unwrap_or_default();
            let got = ran.lines().next().map(|l| std::fs::canonicalize(l).unwrap_or_default()).unwrap_or_default();
            if !present || got != want {
                ctx.violation("C15/slash-name-searched", "a name containing a slash was looked up on PATH (or something else ran)", wit);
            } else if attempts != 1 {
                ctx.violation("C15/slash-name-multiple-attempts", "a name containing a slash caused more than one exec attempt", wit);
            } else {
                ctx.count("winners_verified", 1);
            }
        }
        Some(Err(e)) => {
            if present {
                ctx.violation("C15/slash-name-not-started", &format!("the named file exists and is executable but the launch failed: {:?}", e), wit);
            } else if out.exists() {
                ctx.violation("C15/slash-name-searched", "a name containing a slash was looked up on PATH", wit);
            } else {
                ctx.count("error_cases", 1);
            }
        }
        None => ctx.violation("C15/panic/slash", "Popen::create panicked", wit),
    }
    ctx.distinct(&format!("slash|{}|{}|{}", name.len().min(20), present, use_executable));
    run::end_case();
}

pub fn run(ctx: &mut Ctx) {
    let n = ctx.n(2000, 50_000);
    ctx.family("path", n, |ctx, rng, i| path_case(ctx, rng, i, false));
    let ne = ctx.n(100, 2000);
    ctx.family("only-empty", ne, |ctx, rng, i| path_case(ctx, rng, i, true));
    let ns = ctx.n(300, 5000);
    ctx.family("slash", ns, slash_case);
}
