// C06 — the child gets exactly the requested argv, program, environment, cwd and identity.
// Oracle: the child's own report (vchild in report mode, selected by executable *name* so
// that argv/env/cwd are entirely free) compared byte for byte with a reference model.

use crate::ilog::{self, k};
use crate::json::J;
use crate::rng::Rng;
use crate::run::{self, Ctx};
use crate::spawn;
use crate::win_popen;
use std::collections::BTreeMap;
use std::ffi::OsString;
use std::os::unix::ffi::{OsStrExt, OsStringExt};
use std::path::PathBuf;
use subprocess::{Popen, PopenConfig, Redirection};

fn os(b: &[u8]) -> OsString {
    OsString::from_vec(b.to_vec())
}

fn gen_bytes(rng: &mut Rng, len: usize, style: u64) -> Vec<u8> {
    match style % 6 {
        0 => rng.bytes_nonul(len),
        1 => (0..len).map(|_| *rng.pick(&[b' ', b'\t', b'\n', b'"', b'\'', b'\\', b'$', b'`', b'*', b'a'])).collect(),
        2 => (0..len).map(|_| rng.range(0x80, 0xff) as u8).collect(), // invalid UTF-8
        3 => "é𝄞ß".as_bytes().iter().cycle().take(len).cloned().collect(),
        4 => vec![b' '; len],
        _ => (0..len).map(|_| rng.range(0x21, 0x7e) as u8).collect(),
    }
}

fn gen_key(rng: &mut Rng) -> Vec<u8> {
    let len = rng.range(1, 12) as usize;
    let style = rng.below(3);
    (0..len)
        .map(|_| {
            let b = match style {
                0 => rng.range(b'A' as u64, b'Z' as u64) as u8,
                1 => *rng.pick(&[b'a', b'B', b'_', b'1', b' ', b'-', b'.']),
                _ => {
                    let x = rng.range(1, 255) as u8;
                    if x == b'=' { b'e' } else { x }
                }
            };
            b
        })
        .collect()
}

struct Case {
    argv: Vec<Vec<u8>>, // argv[0] included
    exe_override: bool,
    env: Option<Vec<(Vec<u8>, Vec<u8>)>>,
    cwd: Option<PathBuf>,
    setuid: Option<u32>,
    setgid: Option<u32>,
    setpgid: bool,
    /// the program is named without a slash and found through the parent's PATH (its directory being the longest entry)
    by_name: bool,
}

fn describe(c: &Case) -> J {
    J::obj()
        .set("argc", J::i(c.argv.len() as i64))
        .set("argv_bytes", J::i(c.argv.iter().map(|a| a.len()).sum::<usize>() as i64))
        .set("argv_head", J::Arr(c.argv.iter().take(4).map(|a| J::Str(crate::json::show_bytes(a, 40))).collect()))
        .set("exe_override", J::Bool(c.exe_override))
        .set("named_without_a_slash(found through PATH)", J::Bool(c.by_name))
        .set("env", match &c.env { None => J::s("inherit"), Some(e) => J::s(&format!("{} entries", e.len())) })
        .set("cwd", match &c.cwd { None => J::Null, Some(p) => J::s(&p.to_string_lossy()) })
        .set("ids", J::s(&format!("setuid={:?} setgid={:?} setpgid={}", c.setuid, c.setgid, c.setpgid)))
}

fn run_case(ctx: &mut Ctx, c: &Case, class: &str) {
    run::begin_case();
    let dir = ctx.scratch("c06");
    let exe = spawn::report_exe(ctx, &dir, "r", "x");
    let mut argv: Vec<OsString> = c.argv.iter().map(|a| os(a)).collect();
    // how the program is named: by its path, or by its bare name with its directory on the parent's PATH (as the longest
    // entry, after and before shorter ones that do not have it)
    let prog: OsString = if c.by_name { exe.file_name().unwrap().to_owned() } else { exe.clone().into_os_string() };
    let old_path = std::env::var_os("PATH");
    if c.by_name {
        ctx.count("programs_named_without_a_slash_and_found_through_PATH", 1);
        let mut p = OsString::from("/nonexistent/a:/nonexistent-b:");
        p.push(dir.as_os_str());
        if c.argv.len() % 2 == 0 {
            p.push(":/nonexistent/c");
        }
        std::env::set_var("PATH", p);
    }
    if !c.exe_override {
        argv[0] = prog.clone();
    }
    let parent_env: Vec<(OsString, OsString)> = std::env::vars_os().collect();
    let parent_cwd = std::env::current_dir().unwrap();
    let config = PopenConfig {
        executable: if c.exe_override { Some(prog.clone()) } else { None },
        env: c.env.as_ref().map(|e| e.iter().map(|(k, v)| (os(k), os(v))).collect()),
        cwd: c.cwd.as_ref().map(|p| p.clone().into_os_string()),
        setuid: c.setuid,
        setgid: c.setgid,
        setpgid: c.setpgid,
        stdout: Redirection::None,
        ..Default::default()
    };
    // a third of the launches go through a clone of the configuration: a clone must describe the same command
    let via_clone = c.argv.len() % 3 == 1;
    let config = if via_clone { config.try_clone().expect("try_clone") } else { config };
    if via_clone {
        ctx.count("launches_through_a_cloned_config", 1);
    }
    // the same request through the Exec builder (it has no executable override and no setpgid)
    let via_exec = !c.exe_override && !c.setpgid && c.argv.len() % 3 == 2;
    // the caller's real and effective ids may differ (a set-uid program, a daemon half-way through dropping privileges):
    // a requested id is what the child gets as its real, effective and saved id, whatever the caller's happen to be
    let split_ids = (c.setuid == Some(0) || c.setgid == Some(0)) && c.argv.len() % 2 == 0;
    if split_ids {
        ctx.count("launches_from_a_caller_whose_real_and_effective_ids_differ", 1);
        unsafe {
            libc::setregid(65534, 0);
            libc::setreuid(65534, 0);
        }
    }
    let m = if via_exec {
        ctx.count("launches_through_the_exec_builder", 1);
        use subprocess::ExecExt;
        let mut e = subprocess::Exec::cmd(&argv[0]).args(&argv[1..]);
        if let Some(list) = &c.env {
            e = e.env_clear();
            // half in one go, half one by one
            let (a, b) = list.split_at(list.len() / 2);
            e = e.env_extend(&a.iter().map(|(k, v)| (os(k), os(v))).collect::<Vec<_>>());
            for (k, v) in b {
                e = e.env(os(k), os(v));
            }
        }
        if let Some(p) = &c.cwd {
            e = e.cwd(p);
        }
        if let Some(u) = c.setuid {
            e = e.setuid(u);
        }
        if let Some(g) = c.setgid {
            e = e.setgid(g);
        }
        drop(config);
        run::monitored(|| e.popen())
    } else {
        run::monitored(|| Popen::create(&argv, config))
    };
    if split_ids {
        unsafe {
            libc::setreuid(0, 0);
            libc::setregid(0, 0);
        }
    }
    if c.by_name {
        match old_path {
            Some(p) => std::env::set_var("PATH", p),
            None => std::env::remove_var("PATH"),
        }
    }
    let evs = m.events();
    let wit = |extra: J| J::obj().set("case", describe(c)).set("events", J::arr_s(&ilog::fmt_tail(&evs, 30))).set("detail", extra);
    ctx.count("spawns", 1);
    match m.result {
        None => ctx.violation(&format!("C06/panic/{}", class), "Popen::create panicked", wit(J::s(m.panic.as_deref().unwrap_or("")))),
        Some(Err(e)) => ctx.violation(&format!("C06/launch-failed/{}", class), &format!("a valid request was refused: {:?}", e), wit(J::Null)),
        Some(Ok(mut p)) => {
            let pid = p.pid().unwrap_or(0) as i32;
            let rep = spawn::get_report(&exe, 5000);
            let _ = p.wait();
            match rep {
                None => ctx.violation(&format!("C06/no-report/{}", class), "the child never reported", wit(J::Null)),
                Some(r) => {
                    ctx.count("children_inspected", 1);
                    // argv verbatim
                    let want: Vec<Vec<u8>> = argv.iter().map(|a| a.as_bytes().to_vec()).collect();
                    ctx.count("argv_bytes_verified", want.iter().map(|a| a.len() as i64).sum());
                    if r.argv != want {
                        let idx = (0..want.len().max(r.argv.len())).find(|&i| want.get(i) != r.argv.get(i)).unwrap_or(0);
                        ctx.violation(
                            &format!("C06/argv/{}", class),
                            &format!("the child's argument vector differs from the request (argc {} vs {}, first difference at index {})", r.argv.len(), want.len(), idx),
                            wit(J::obj()
                                .set("wanted", J::Str(crate::json::show_bytes(want.get(idx).map(|v| &v[..]).unwrap_or(b"<absent>"), 120)))
                                .set("got", J::Str(crate::json::show_bytes(r.argv.get(idx).map(|v| &v[..]).unwrap_or(b"<absent>"), 120)))),
                        );
                    }
                    // program image
                    if r.exe != exe.as_os_str().as_bytes() {
                        ctx.violation(&format!("C06/program/{}", class), "a different executable is running", wit(J::bytes(&r.exe)));
                    }
                    // environment
                    let want_env: BTreeMap<Vec<u8>, Vec<u8>> = match &c.env {
                        None => parent_env.iter().map(|(k, v)| (k.as_bytes().to_vec(), v.as_bytes().to_vec())).collect(),
                        Some(list) => {
                            let mut m = BTreeMap::new();
                            for (k, v) in list {
                                m.insert(k.clone(), v.clone()); // later wins
                            }
                            m
                        }
                    };
                    let mut got_env: BTreeMap<Vec<u8>, Vec<u8>> = BTreeMap::new();
                    let mut dup = None;
                    for e in &r.env {
                        let eq = e.iter().position(|&c| c == b'=').unwrap_or(e.len());
                        let (kk, vv) = (e[..eq].to_vec(), e.get(eq + 1..).unwrap_or(b"").to_vec());
                        if got_env.insert(kk.clone(), vv).is_some() {
                            dup = Some(kk);
                        }
                    }
                    ctx.count("env_entries_verified", want_env.len() as i64);
                    if let Some(d) = dup {
                        ctx.violation(&format!("C06/env-duplicate/{}", class), "the child's environment contains a name twice", wit(J::bytes(&d)));
                    } else if got_env != want_env {
                        let diff: Vec<String> = want_env
                            .iter()
                            .filter(|(k, v)| got_env.get(*k) != Some(v))
                            .map(|(k, v)| format!("want {}={} got {:?}", crate::json::show_bytes(k, 30), crate::json::show_bytes(v, 30), got_env.get(k).map(|x| crate::json::show_bytes(x, 30))))
                            .chain(got_env.iter().filter(|(k, _)| !want_env.contains_key(*k)).map(|(k, _)| format!("unexpected {}", crate::json::show_bytes(k, 30))))
                            .take(5)
                            .collect();
                        ctx.violation(&format!("C06/env/{}", class), "the child's environment differs from the request", wit(J::arr_s(&diff)));
                    }
                    // cwd
                    let want_cwd = match &c.cwd {
                        None => parent_cwd.clone(),
                        Some(p) => std::fs::canonicalize(if p.is_absolute() { p.clone() } else { parent_cwd.join(p) }).unwrap_or_default(),
                    };
                    if r.cwd != want_cwd.as_os_str().as_bytes() {
                        ctx.violation(&format!("C06/cwd/{}", class), "the child's working directory differs from the request", wit(J::obj().set("want", J::s(&want_cwd.to_string_lossy())).set("got", J::bytes(&r.cwd))));
                    }
                    // identity
                    let wu = c.setuid.unwrap_or(0);
                    let wg = c.setgid.unwrap_or(0);
                    // (an id that was not requested is inherited as it is: real and effective may then differ, as the caller's do)
                    let (want_ruid, want_rgid) = (if split_ids && c.setuid.is_none() { 65534 } else { wu }, if split_ids && c.setgid.is_none() { 65534 } else { wg });
                    if r.uid != want_ruid || r.euid != wu || r.gid != want_rgid || r.egid != wg {
                        ctx.violation(
                            &format!("C06/identity/{}", class),
                            &format!("uid/gid differ: want uid {} gid {}, child has uid {} euid {} gid {} egid {}", wu, wg, r.uid, r.euid, r.gid, r.egid),
                            wit(J::Null),
                        );
                    }
                    if r.pid != pid {
                        ctx.violation(&format!("C06/pid/{}", class), "the reporting process is not the one the handle names", wit(J::Null));
                    }
                    let my_pgid = unsafe { libc::getpgid(0) };
                    let want_pgid = if c.setpgid { pid } else { my_pgid };
                    if r.pgid != want_pgid {
                        ctx.violation(&format!("C06/pgid/{}", class), &format!("process group: want {} got {}", want_pgid, r.pgid), wit(J::Null));
                    }
                }
            }
        }
    }
    run::end_case();
}

fn nul_case(ctx: &mut Ctx, rng: &mut Rng, i: u64) {
    run::begin_case();
    let dir = ctx.scratch("c06n");
    let exe = spawn::report_exe(ctx, &dir, "n", "x");
    let mut argv: Vec<Vec<u8>> = vec![exe.as_os_str().as_bytes().to_vec()];
    for _ in 0..rng.range(0, 5) {
        let l = rng.range(0, 20) as usize;
        argv.push(gen_bytes(rng, l, 5));
    }
    let mut env: Vec<(Vec<u8>, Vec<u8>)> = (0..rng.range(1, 5)).map(|_| (gen_key(rng), gen_bytes(rng, 5, 5))).collect();
    let put = |v: &mut Vec<u8>, rng: &mut Rng| {
        let pos = match rng.below(3) { 0 => 0, 1 => v.len(), _ => v.len() / 2 };
        v.insert(pos, 0);
    };
    let place = i % 4;
    let mut use_env = true;
    match place {
        0 => {
            let w = rng.below(argv.len() as u64) as usize;
            put(&mut argv[w], rng);
            use_env = rng.chance(500);
        }
        1 => {
            let w = rng.below(env.len() as u64) as usize;
            put(&mut env[w].0, rng);
        }
        2 => {
            // the value must be the effective one for its name (a later duplicate would override it and with it the NUL)
            let w = rng.below(env.len() as u64) as usize;
            let key = env[w].0.clone();
            let mut idx = 0;
            env.retain(|(k, _)| {
                idx += 1;
                idx - 1 == w || *k != key
            });
            let w = env.iter().position(|(k, _)| *k == key).unwrap();
            put(&mut env[w].1, rng);
        }
        _ => {
            // argv[0] itself with executable override
            put(&mut argv[0], rng);
        }
    }
    let argv_os: Vec<OsString> = argv.iter().map(|a| os(a)).collect();
    let config = PopenConfig {
        executable: if place == 3 { Some(exe.clone().into_os_string()) } else { None },
        env: if use_env { Some(env.iter().map(|(k, v)| (os(k), os(v))).collect()) } else { None },
        ..Default::default()
    };
    let m = run::monitored(|| Popen::create(&argv_os, config));
    let evs = m.events();
    let forks = spawn::count_kind(&evs, k::FORK, false);
    ctx.count("nul_cases", 1);
    let w = J::obj().set("placement", J::s(["argument", "env name", "env value", "argv[0] with executable override"][place as usize])).set("events", J::arr_s(&ilog::fmt_tail(&evs, 20)));
    match m.result {
        Some(Err(_)) if forks == 0 => ctx.count("nul_rejected_before_fork", 1),
        Some(Err(_)) => ctx.violation(&format!("C06/nul-rejected-after-fork/{}", place), "NUL was rejected only after a process had been forked", w),
        Some(Ok(mut p)) => {
            let _ = p.wait();
            ctx.violation(&format!("C06/nul-accepted/{}", place), "input containing NUL was accepted and something was started", w);
        }
        None => ctx.violation(&format!("C06/nul-panic/{}", place), "panic on NUL input", w),
    }
    ctx.distinct(&format!("nul{}{}", place, i));
    run::end_case();
}

fn win_env_case(ctx: &mut Ctx, rng: &mut Rng) {
    // format_env_block (cfg(windows), extracted): block must parse back to the case-insensitive last-wins model
    let n = rng.range(0, 12);
    let keys = ["Path", "PATH", "path", "Temp", "TEMP", "x", "X", "é", "É", "k1", "K1", "a b"];
    let env: Vec<(String, String)> = (0..n).map(|_| (rng.pick(&keys).to_string(), format!("v{}", rng.below(50)))).collect();
    let os_env: Vec<(OsString, OsString)> = env.iter().map(|(k, v)| (OsString::from(k), OsString::from(v))).collect();
    let block = win_popen::call_format_env_block(&os_env);
    ctx.count("win_env_blocks", 1);
    // model: ASCII-case-insensitive last wins, original spelling of the winning entry
    let mut model: Vec<(String, String)> = vec![];
    for (k, v) in &env {
        model.retain(|(mk, _)| mk.to_ascii_uppercase() != k.to_ascii_uppercase());
        model.push((k.clone(), v.clone()));
    }
    // parse
    let mut got: Vec<(String, String)> = vec![];
    let mut ok = block.last() == Some(&0);
    let mut cur: Vec<u16> = vec![];
    let body = if block.is_empty() { &block[..] } else { &block[..block.len() - 1] };
    for &w in body {
        if w == 0 {
            let s = String::from_utf16_lossy(&cur);
            match s.split_once('=') {
                Some((k, v)) => got.push((k.to_string(), v.to_string())),
                None => ok = false,
            }
            cur.clear();
        } else {
            cur.push(w);
        }
    }
    if !cur.is_empty() {
        ok = false;
    }
    let mut a = model.clone();
    let mut b = got.clone();
    a.sort();
    b.sort();
    if !ok || a != b {
        ctx.violation(
            "C06/win-env-block",
            "the Windows environment block does not parse back to the requested variables (case-insensitive, later wins)",
            J::obj().set("env", J::s(&format!("{:?}", env))).set("parsed", J::s(&format!("{:?}", got))),
        );
    }
}

/// Can a process running as another user reach (search) every directory on the way to `p`?
fn world_reachable(p: &std::path::Path) -> bool {
    use std::os::unix::fs::PermissionsExt;
    let mut cur = Some(p);
    while let Some(d) = cur {
        if let Ok(md) = std::fs::metadata(d) {
            if md.is_dir() && md.permissions().mode() & 0o001 == 0 {
                return false;
            }
        }
        cur = d.parent();
    }
    true
}

pub fn run(ctx: &mut Ctx) {
    // children started under another uid must be able to reach the scratch directory (true under /verif; not e.g. under /root)
    let other_uids_ok = world_reachable(&ctx.work) && world_reachable(&ctx.vchild);
    if !other_uids_ok {
        ctx.count("identity_changes_to_other_users_skipped(scratch directory not reachable for them)", 1);
    }
    let n = ctx.n(3000, 150_000);
    ctx.family("random", n, |ctx, rng, i| {
        // argv
        let shape = rng.below(10);
        let argc = match shape {
            0 => 0,
            1 => rng.range(100, 600),
            _ => rng.range(1, 12),
        };
        let (l0, s0) = (rng.range(0, 30) as usize, rng.below(6));
        let mut argv: Vec<Vec<u8>> = vec![gen_bytes(rng, l0, s0)];
        let mut total = 0usize;
        for _ in 0..argc {
            let len = match rng.below(12) {
                0 => 0,
                1 => rng.range(1000, 100_000) as usize,
                2 => 1,
                _ => rng.range(1, 60) as usize,
            };
            let len = if total + len > 900_000 { 3 } else { len };
            total += len;
            let st = rng.below(6);
            argv.push(gen_bytes(rng, len, st));
        }
        let exe_override = rng.chance(400);
        // env
        let env = if rng.chance(350) {
            None
        } else {
            let n = match rng.below(6) { 0 => 0, 1 => rng.range(100, 500), _ => rng.range(1, 20) };
            let mut list: Vec<(Vec<u8>, Vec<u8>)> = vec![];
            let mut etotal = 0usize;
            for _ in 0..n {
                // duplicates: reuse an earlier key often
                let key = if !list.is_empty() && rng.chance(350) { list[rng.below(list.len() as u64) as usize].0.clone() } else { gen_key(rng) };
                let vl = match rng.below(10) { 0 => 0, 1 => rng.range(1000, 50_000) as usize, _ => rng.range(0, 40) as usize };
                let vl = if etotal + vl > 600_000 { 2 } else { vl };
                etotal += vl;
                let st = rng.below(6);
                list.push((key, gen_bytes(rng, vl, st)));
            }
            Some(list)
        };
        // cwd
        let cwd = match rng.below(6) {
            0 => {
                let d = ctx.work.join(format!("cwd dir {}", i % 7));
                let _ = std::fs::create_dir_all(&d);
                Some(d)
            }
            1 => {
                // relative to the parent's cwd (the worker's scratch dir)
                let _ = std::fs::create_dir_all(std::env::current_dir().unwrap().join("rel/sub dir"));
                Some(PathBuf::from("rel/sub dir"))
            }
            2 => Some(PathBuf::from("/")),
            3 => {
                // a directory only the caller may enter (mode 0700): the working directory is the caller's request, made
                // with the caller's rights, whoever the child then becomes
                use std::os::unix::fs::PermissionsExt;
                let d = ctx.work.join(format!("private cwd {}", i % 3));
                let _ = std::fs::create_dir_all(&d);
                let _ = std::fs::set_permissions(&d, std::fs::Permissions::from_mode(0o700));
                ctx.count("launches_into_a_working_directory_only_the_caller_may_enter", 1);
                Some(d)
            }
            _ => None,
        };
        // identity: one of the combinations, all of them over time
        let idc = rng.below(8);
        let uids: &[u32] = if other_uids_ok { &[0u32, 65534, 1234] } else { &[0u32] };
        let gids = [0u32, 65534, 4321];
        let setuid = if idc & 1 != 0 { Some(*rng.pick(uids)) } else { None };
        let setgid = if idc & 2 != 0 { Some(*rng.pick(&gids)) } else { None };
        let setpgid = idc & 4 != 0;
        let by_name = rng.chance(250);
        let c = Case { argv, exe_override, env, cwd, setuid, setgid, setpgid, by_name };
        let class = format!("ids{}", idc);
        ctx.distinct(&format!("{}|{}|{}|{}|{}", shape, exe_override, c.env.as_ref().map(|e| e.len() as i64).unwrap_or(-1), c.cwd.is_some(), idc));
        if i < 2 {
            ctx.sample(describe(&c));
        }
        ctx.count(&format!("identity_combination.{}", idc), 1);
        run_case(ctx, &c, &class);
    });
    // duplicate keys in every position of a short list, exhaustively
    ctx.family("dupkeys", 243, |ctx, _rng, i| {
        // 5 entries, each key one of 3 names: 3^5 lists
        let names = [&b"K"[..], &b"k"[..], &b"KK"[..]];
        let mut x = i;
        let mut list = vec![];
        for j in 0..5 {
            list.push((names[(x % 3) as usize].to_vec(), format!("v{}", j).into_bytes()));
            x /= 3;
        }
        let c = Case { argv: vec![b"x".to_vec(), b"".to_vec(), b" ".to_vec()], exe_override: false, env: Some(list), cwd: None, setuid: None, setgid: None, setpgid: false, by_name: false };
        ctx.distinct(&format!("dup{}", i));
        ctx.count("duplicate_key_placements", 1);
        run_case(ctx, &c, "dupkeys");
    });
    // "the parent's environment when unspecified" is the parent's environment as it is - also when it holds an entry
    // without '=' or the same name twice (legitimate through execve; getenv sees the first) - not a cleaned-up copy
    let no = ctx.n(60, 1200);
    ctx.family("odd-parent-environment", no, |ctx, rng, i| {
        extern "C" {
            static mut environ: *mut *mut libc::c_char;
        }
        run::begin_case();
        let dir = ctx.scratch("c06o");
        let exe = spawn::report_exe(ctx, &dir, "o", "x");
        // build the odd vector: everything there is, plus a repeated name and an entry without '='
        let extra: Vec<std::ffi::CString> = vec![
            std::ffi::CString::new(format!("VERIF_TWICE=first-{}", i)).unwrap(),
            std::ffi::CString::new("verif_entry_without_equals_sign").unwrap(),
            std::ffi::CString::new(format!("VERIF_TWICE=second-{}", rng.below(100))).unwrap(),
        ];
        let (old, mut vec_ptrs): (*mut *mut libc::c_char, Vec<*mut libc::c_char>) = unsafe {
            let old = environ;
            let mut v = vec![];
            let mut k = 0;
            while !(*old.offset(k)).is_null() {
                v.push(*old.offset(k));
                k += 1;
            }
            (old, v)
        };
        let at = rng.below(vec_ptrs.len() as u64 + 1) as usize;
        for (j, e) in extra.iter().enumerate() {
            vec_ptrs.insert((at + j).min(vec_ptrs.len()), e.as_ptr() as *mut libc::c_char);
        }
        let want: Vec<Vec<u8>> = vec_ptrs.iter().map(|p| unsafe { std::ffi::CStr::from_ptr(*p).to_bytes().to_vec() }).collect();
        vec_ptrs.push(std::ptr::null_mut());
        unsafe { environ = vec_ptrs.as_mut_ptr() };
        let route = i % 4;
        let exe2 = exe.clone();
        let m = run::monitored(move || -> Result<(), String> {
            match route {
                0 => Popen::create(&[exe2.clone().into_os_string()], PopenConfig::default()).and_then(|mut p| p.wait().map(|_| ())),
                1 => subprocess::Exec::cmd(&exe2).join().map(|_| ()),
                2 => subprocess::Exec::cmd(&exe2).stdout(Redirection::Pipe).capture().map(|_| ()),
                _ => (subprocess::Exec::cmd(&exe2) | subprocess::Exec::cmd("true")).join().map(|_| ()),
            }
            .map_err(|e| e.to_string())
        });
        unsafe { environ = old };
        drop(vec_ptrs);
        ctx.count("launches_from_a_parent_with_an_odd_environment_vector", 1);
        ctx.distinct(&format!("oddenv|{}|{}", route, at % 5));
        match (m.result, spawn::get_report(&exe, 3000)) {
            (Some(Ok(())), Some(r)) => {
                ctx.count("children_inspected", 1);
                if r.env != want {
                    let missing: Vec<String> = want.iter().filter(|e| !r.env.contains(e)).take(4).map(|e| crate::json::show_bytes(e, 50)).collect();
                    ctx.violation("C06/env/inherited-not-verbatim", "no environment was requested, yet the child's environment is not the parent's environment vector as it is", J::obj().set("parent_entries", J::i(want.len() as i64)).set("child_entries", J::i(r.env.len() as i64)).set("missing_in_child", J::arr_s(&missing)));
                }
            }
            (res, _) => ctx.inconclusive("launch under an odd environment vector did not run", J::s(&format!("{:?}", res))),
        }
        run::end_case();
    });
    // env_remove(NAME) on a command that otherwise inherits: NAME is absent in the child - also when the caller did not have
    // it at that moment and gets it before the command is run (removed is removed)
    let nr = ctx.n(60, 1200);
    ctx.family("removed-names", nr, |ctx, rng, i| {
        run::begin_case();
        let dir = ctx.scratch("c06r");
        let exe = spawn::report_exe(ctx, &dir, "r", "x");
        let name = format!("VERIF_C06_REMOVED_{}", i % 5);
        std::env::remove_var(&name);
        let had_it = i % 3 == 0;
        if had_it {
            std::env::set_var(&name, "there-from-the-start");
        }
        let mut e = subprocess::Exec::cmd(&exe).env_remove(&name);
        if i % 4 == 1 {
            e = e.clone();
        }
        if rng.chance(500) {
            e = e.arg("x");
        }
        // ... the caller's environment moves on
        std::env::set_var(&name, "appeared-later");
        let route = i % 3;
        let m = run::monitored(move || -> Result<(), String> {
            match route {
                0 => e.join().map(|_| ()),
                1 => e.stdout(Redirection::Pipe).capture().map(|_| ()),
                _ => (e | subprocess::Exec::cmd("true")).join().map(|_| ()),
            }
            .map_err(|e| e.to_string())
        });
        std::env::remove_var(&name);
        ctx.count("launches_after_env_remove_of_a_name_that_appears_later", 1);
        ctx.distinct(&format!("removed|{}|{}|{}", had_it, route, i % 4 == 1));
        match (m.result, spawn::get_report(&exe, 3000)) {
            (Some(Ok(())), Some(r)) => {
                ctx.count("children_inspected", 1);
                let prefix = format!("{}=", name).into_bytes();
                if let Some(entry) = r.env.iter().find(|e| e.starts_with(&prefix)) {
                    ctx.violation("C06/env/removed-name-present", "a name removed with env_remove() is in the child's environment", J::obj().set("entry", J::bytes(entry)).set("caller_had_it_when_removed", J::Bool(had_it)));
                }
            }
            (res, _) => ctx.inconclusive("launch did not run", J::s(&format!("{:?}", res))),
        }
        run::end_case();
    });
    // a working directory is requested and the program is named relative to it (`./tool`, `bin/tool`): the child changes
    // directory first and starts the program from there - where the caller itself happens to stand does not matter
    let nrel = ctx.n(60, 1200);
    ctx.family("program-relative-to-the-requested-directory", nrel, |ctx, rng, i| {
        use std::os::unix::ffi::OsStrExt;
        run::begin_case();
        let dir = ctx.scratch("c06d");
        let sub = dir.join("bin");
        let _ = std::fs::create_dir_all(&sub);
        let in_sub = i % 2 == 0;
        let exe = spawn::report_exe(ctx, if in_sub { &sub } else { &dir }, "d", "x");
        let base = exe.file_name().unwrap().to_string_lossy().into_owned();
        let rel = match (in_sub, (i / 2) % 2) {
            (true, 0) => format!("bin/{}", base),
            (true, _) => format!("./bin/{}", base),
            (false, 0) => format!("./{}", base),
            (false, _) => format!("bin/../{}", base),
        };
        let route = (i / 4) % 3;
        let args: Vec<String> = (0..rng.below(3)).map(|k| format!("arg{}", k)).collect();
        let (rel2, dir2, args2) = (rel.clone(), dir.clone(), args.clone());
        let m = run::monitored(move || -> Result<(), String> {
            match route {
                0 => subprocess::Exec::cmd(&rel2).args(&args2).cwd(&dir2).join().map(|_| ()).map_err(|e| e.to_string()),
                1 => {
                    let mut argv = vec![std::ffi::OsString::from(&rel2)];
                    argv.extend(args2.iter().map(std::ffi::OsString::from));
                    Popen::create(&argv, PopenConfig { cwd: Some(dir2.clone().into_os_string()), ..Default::default() }).and_then(|mut p| p.wait().map(|_| ())).map_err(|e| e.to_string())
                }
                _ => {
                    // the program is named apart from argv[0]
                    let mut argv = vec![std::ffi::OsString::from("shown-as-argv0")];
                    argv.extend(args2.iter().map(std::ffi::OsString::from));
                    Popen::create(&argv, PopenConfig { cwd: Some(dir2.clone().into_os_string()), executable: Some(std::ffi::OsString::from(&rel2)), ..Default::default() }).and_then(|mut p| p.wait().map(|_| ())).map_err(|e| e.to_string())
                }
            }
        });
        ctx.count("launches_of_a_program_named_relative_to_the_requested_directory", 1);
        ctx.distinct(&format!("reldir|{}|{}", rel.replace(&base, "X"), route));
        let w = J::obj().set("program", J::s(&rel)).set("cwd", J::s(&dir.to_string_lossy())).set("route", J::s(["Exec::cwd", "PopenConfig::cwd", "PopenConfig::cwd+executable"][route as usize]));
        match (m.result, spawn::get_report(&exe, 3000)) {
            (Some(Ok(())), Some(r)) => {
                ctx.count("children_inspected", 1);
                let want_cwd = std::fs::canonicalize(&dir).unwrap_or(dir.clone());
                if r.cwd != want_cwd.as_os_str().as_bytes() {
                    ctx.violation("C06/cwd/program-relative-to-it", "the program ran in another directory than the requested one", w.set("child_cwd", J::bytes(&r.cwd)));
                }
            }
            (Some(Err(e)), _) => ctx.violation("C06/program-relative-to-cwd-not-started", &format!("a program that exists relative to the requested working directory was not started: {}", e), w),
            (res, _) => ctx.inconclusive("launch did not run or report", J::s(&format!("{:?}", res))),
        }
        run::end_case();
    });
    // the parent has no PATH (or an empty one) and the program is a bare name; whatever program of that name the launch
    // finds (one in the working directory, one on a default path), it is given exactly the environment that was requested
    let np = ctx.n(60, 1500);
    ctx.family("parent-without-PATH", np, |ctx, rng, i| {
        use std::io::Read;
        run::begin_case();
        let dir = ctx.scratch("c06p");
        let fake = dir.join("env");
        if std::fs::hard_link(&ctx.vchild, &fake).is_err() {
            std::fs::copy(&ctx.vchild, &fake).unwrap();
        }
        let rep = dir.join("env.rep");
        let mut list: Vec<(OsString, OsString)> = vec![(OsString::from("VCHILD_REPORT"), rep.clone().into_os_string())];
        for j in 0..rng.range(0, 6) {
            list.push((OsString::from(format!("REQ{}", j)), OsString::from(format!("value {}", rng.below(1000)))));
        }
        let old = std::env::var_os("PATH");
        if i % 2 == 0 {
            std::env::remove_var("PATH");
        } else {
            std::env::set_var("PATH", "");
        }
        let route = i % 3;
        let list2 = list.clone();
        let dir2 = dir.clone();
        let m = run::monitored(move || -> Result<Vec<u8>, String> {
            let mut p = match route {
                0 => Popen::create(&["env"], PopenConfig { env: Some(list2), cwd: Some(dir2.into_os_string()), stdout: Redirection::Pipe, ..Default::default() }),
                1 => subprocess::Exec::cmd("env").env_clear().env_extend(&list2).cwd(&dir2).stdout(Redirection::Pipe).popen(),
                _ => {
                    let mut e = subprocess::Exec::cmd("env").cwd(&dir2).stdout(Redirection::Pipe).env_clear();
                    for (k, v) in &list2 {
                        e = e.env(k, v);
                    }
                    e.popen()
                }
            }
            .map_err(|e| e.to_string())?;
            let mut out = vec![];
            if let Some(o) = p.stdout.as_mut() {
                let _ = o.read_to_end(&mut out);
            }
            let _ = p.wait();
            Ok(out)
        });
        match old {
            Some(p) => std::env::set_var("PATH", p),
            None => std::env::remove_var("PATH"),
        }
        ctx.count("launches_from_a_parent_without_PATH", 1);
        ctx.distinct(&format!("nopath|{}|{}|{}", i % 2, route, list.len()));
        let want: BTreeMap<Vec<u8>, Vec<u8>> = list.iter().map(|(k, v)| (k.as_bytes().to_vec(), v.as_bytes().to_vec())).collect();
        if let Some(Ok(out)) = &m.result {
            // what did the program that ran receive?  its own report if it is the monitor's stand-in, else what it printed (an env listing)
            let got: Option<BTreeMap<Vec<u8>, Vec<u8>>> = match crate::kid::wait_report(&rep, 300) {
                Some(r) => Some(r.env.iter().map(|e| { let eq = e.iter().position(|&c| c == b'=').unwrap_or(e.len()); (e[..eq].to_vec(), e.get(eq + 1..).unwrap_or(b"").to_vec()) }).collect()),
                None if !out.is_empty() => Some(out.split(|&c| c == b'\n').filter(|l| !l.is_empty()).map(|e| { let eq = e.iter().position(|&c| c == b'=').unwrap_or(e.len()); (e[..eq].to_vec(), e.get(eq + 1..).unwrap_or(b"").to_vec()) }).collect()),
                None => None,
            };
            if let Some(got) = got {
                ctx.count("children_inspected", 1);
                if got != want {
                    let extra: Vec<String> = got.keys().filter(|k| !want.contains_key(*k)).take(6).map(|k| crate::json::show_bytes(k, 30)).collect();
                    ctx.violation("C06/env/parent-without-PATH", "the program that was started did not receive exactly the requested environment", J::obj().set("requested", J::i(want.len() as i64)).set("received", J::i(got.len() as i64)).set("unrequested_names", J::arr_s(&extra)));
                }
            }
        } else if let Some(p) = &m.panic {
            ctx.violation("C06/panic/parent-without-PATH", "panic", J::s(p));
        }
        run::end_case();
    });
    let nn = ctx.n(400, 10_000);
    ctx.family("nul", nn, |ctx, rng, i| nul_case(ctx, rng, i));
    if win_popen::EXTRACTED {
        let nw = ctx.n(5000, 200_000);
        ctx.family("winenv", nw, |ctx, rng, _i| win_env_case(ctx, rng));
    } else {
        ctx.inconclusive("extraction of format_env_block failed", J::Null);
    }
}
