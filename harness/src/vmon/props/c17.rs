// C17 — nothing is allocated between fork and exec.
// The harness' global allocator records every Rust heap allocation made in a forked
// child of a monitored thread (allocwatch.rs), with a backtrace.  A canary proves the
// watch is live.

use crate::allocwatch;
use crate::ilog::{self, k};
use crate::json::J;
use crate::plan::{self, Rule};
use crate::rng::Rng;
use crate::run::{self, Ctx};
use crate::spawn;
use std::ffi::OsString;
use std::path::PathBuf;
use std::sync::atomic::Ordering::SeqCst;
use subprocess::{Popen, PopenConfig, Redirection};

/// The harness forks by itself (through the interposed fork) and allocates in the child: must be seen.
fn canary(ctx: &mut Ctx) -> bool {
    run::begin_case();
    let m = run::monitored(|| unsafe {
        let pid = libc::fork();
        if pid == 0 {
            let v: Vec<u8> = Vec::with_capacity(12345);
            std::hint::black_box(&v);
            libc::_exit(0);
        }
        let mut st = 0;
        libc::waitpid(pid, &mut st, 0);
    });
    let _ = m;
    let seen = ilog::shared().map(|s| s.child_allocs.load(SeqCst)).unwrap_or(0);
    let frames = allocwatch::symbolised();
    ctx.count("canary_allocations_seen", seen as i64);
    if let Some((sz, fr)) = frames.first() {
        ctx.count("canary_backtrace_frames", fr.len() as i64);
        let _ = sz;
    }
    run::end_case();
    seen > 0
}

fn deep_dir(base: &std::path::Path, total_len: usize) -> PathBuf {
    // a directory whose absolute path has (about) the requested length
    let mut p = base.to_path_buf();
    loop {
        let cur = p.as_os_str().len();
        if cur + 2 >= total_len {
            break;
        }
        let comp = (total_len - cur - 1).min(200);
        p.push("d".repeat(comp));
    }
    let _ = std::fs::create_dir_all(&p);
    p
}

fn shape_case(ctx: &mut Ctx, rng: &mut Rng, i: u64) {
    run::begin_case();
    let dir = ctx.scratch("c17");
    // command name
    let name_len = match rng.below(5) { 0 => rng.range(200, 255), 1 => 1, _ => rng.range(2, 40) } as usize;
    let name: String = (0..name_len).map(|_| 'n').collect();
    let exe_dir = dir.join("bin");
    std::fs::create_dir_all(&exe_dir).unwrap();
    let exe = exe_dir.join(&name);
    let succeed = rng.chance(550);
    if succeed {
        if std::fs::hard_link(&ctx.vchild, &exe).is_err() {
            std::fs::copy(&ctx.vchild, &exe).unwrap();
        }
    } else {
        // the ways an exec can fail: nothing there, not executable, not an executable format, a directory
        use std::os::unix::fs::PermissionsExt;
        match rng.below(4) {
            0 => {}
            1 => {
                std::fs::write(&exe, b"#!/bin/true\n").unwrap();
                std::fs::set_permissions(&exe, std::fs::Permissions::from_mode(0o644)).unwrap();
            }
            2 => {
                std::fs::write(&exe, b"neither a binary nor a script\n").unwrap();
                std::fs::set_permissions(&exe, std::fs::Permissions::from_mode(0o755)).unwrap();
            }
            _ => {
                let _ = std::fs::create_dir_all(&exe);
            }
        }
    }
    // PATH shape
    let use_path = rng.chance(700);
    let nent = match rng.below(6) { 0 => 0, 1 => rng.range(50, 200), _ => rng.range(1, 10) } as usize;
    let long_pos = rng.below(3); // longest entry first / middle / last
    let mut ents: Vec<String> = (0..nent).map(|j| format!("/nonexistent/p{}", j)).collect();
    let long_len = match rng.below(4) { 0 => rng.range(1000, 4000), 1 => rng.range(300, 999), _ => rng.range(20, 200) } as usize;
    let long_entry = format!("/nonexistent/{}", "L".repeat(long_len));
    let real = exe_dir.to_string_lossy().into_owned();
    // where the real directory goes relative to the long entry decides whether the buffer sizing matters
    match long_pos {
        0 => {
            ents.insert(0, long_entry);
            ents.push(real);
        }
        1 => {
            let mid = ents.len() / 2;
            ents.insert(mid, long_entry);
            ents.push(real);
        }
        _ => {
            ents.insert(0, real);
            ents.push(long_entry);
        }
    }
    if rng.chance(200) {
        ents.insert(0, String::new());
    }
    let path_text = ents.join(":");
    // a PATH that consists of separators only: nowhere to search, the launch fails - without the allocator
    let only_separators = rng.chance(40);
    let path_text = if only_separators { ":".repeat(rng.range(1, 4) as usize) } else { path_text };
    // PATH is a byte string: an entry that is not valid UTF-8 is searched like any other
    let odd_bytes = !only_separators && rng.chance(250);
    let path_os: OsString = if odd_bytes {
        use std::os::unix::ffi::OsStringExt;
        let mut b = b"/nonexistent-\xff\xfe\xc3/bin:".to_vec();
        b.extend_from_slice(path_text.as_bytes());
        if rng.chance(500) {
            b.extend_from_slice(b":/nonexistent/\xe9\xe8");
        }
        OsString::from_vec(b)
    } else {
        OsString::from(&path_text)
    };
    // argv / env sizes
    let nargs = match rng.below(5) { 0 => rng.range(100, 400), _ => rng.range(0, 6) } as usize;
    // the program may also be named apart from argv[0] (PopenConfig::executable): argv[0] is then anything, shorter or longer
    let use_executable = rng.chance(300);
    let prog: OsString = if use_path { OsString::from(&name) } else { exe.clone().into_os_string() };
    let argv0: OsString = if use_executable { OsString::from("z".repeat(match rng.below(3) { 0 => 0, 1 => 1, _ => rng.range(2, 300) } as usize)) } else { prog.clone() };
    let mut argv: Vec<OsString> = vec![argv0];
    argv.push("exit".into());
    argv.push("0".into());
    for _ in 0..nargs {
        argv.push(OsString::from("a".repeat(rng.range(0, 300) as usize)));
    }
    let env = if rng.chance(500) {
        Some((0..rng.range(0, 100)).map(|j| (OsString::from(format!("K{}", j)), OsString::from("v".repeat(rng.range(0, 200) as usize)))).collect::<Vec<_>>())
    } else {
        None
    };
    // cwd length
    let cwd_len = match rng.below(6) { 0 => rng.range(385, 1000), 1 => rng.range(1000, 3900), 2 => rng.range(300, 384), 3 => 0, _ => rng.range(60, 299) } as usize;
    let cwd = if cwd_len == 0 { None } else { Some(deep_dir(&dir, cwd_len)) };
    let streams = rng.below(7);
    let mk = |s: u64| match s { 0 => Redirection::None, _ => Redirection::Pipe };
    let config = PopenConfig {
        stdin: mk(streams & 1),
        // 4: 2>&1 onto the inherited stdout, 5: 1>&2 onto the inherited stderr, 6: stdout to a file and 2>&1
        stdout: match streams { 5 => Redirection::Merge, 6 => Redirection::File(std::fs::File::create(dir.join("out.txt")).unwrap()), 4 => Redirection::None, _ => mk(streams & 2) },
        stderr: if streams == 3 || streams == 4 || streams == 6 { Redirection::Merge } else { Redirection::None },
        cwd: cwd.as_ref().map(|p| p.clone().into_os_string()),
        env,
        setpgid: rng.chance(200),
        // (the worker is root: becoming uid/gid 0 is always permitted and changes nothing)
        setuid: if rng.chance(150) { Some(0) } else { None },
        setgid: if rng.chance(150) { Some(0) } else { None },
        executable: if use_executable { Some(prog.clone()) } else { None },
        ..Default::default()
    };
    let config = if rng.chance(200) { config.try_clone().expect("try_clone") } else { config };
    // optionally fail a child-side step so that the error-report path is exercised
    let fail_step = if rng.chance(300) { Some(*rng.pick(&[k::CHDIR, k::DUP2, k::SETPGID, k::EXECVE])) } else { None };
    // an exec attempt can fail for many reasons, some of them transient (text file busy, out of memory): every attempt
    // fails that way, or only the first one does - whatever the library then does, it does without the allocator
    let fail_errno = if fail_step == Some(k::EXECVE) { *rng.pick(&[libc::EACCES, libc::ETXTBSY, libc::ENOEXEC, libc::ENOMEM, libc::EAGAIN, libc::ENOENT, libc::EIO]) } else { libc::EACCES };
    let fail_nth = if fail_step == Some(k::EXECVE) && rng.chance(500) { 0 } else { 1 };
    if let Some(kind) = fail_step {
        plan::add(Rule { kind, scope: plan::SCOPE_CHILD, nth: fail_nth, fd: -1, act: plan::ACT_FAIL, val: fail_errno as i64, prob: 1000 });
    }
    let old = std::env::var_os("PATH");
    if use_path {
        std::env::set_var("PATH", &path_os);
        if odd_bytes {
            ctx.count("path_values_with_non_utf8_bytes", 1);
        }
    }
    // (the caller may have closed some of its own standard descriptors: the child then has ends to move out of the way)
    let holes = if rng.chance(150) {
        ctx.count("launches_with_parent_standard_descriptors_closed", 1);
        // (a stream merged onto an inherited one needs that one to exist)
        let mask = rng.range(1, 7) as u8 & !(if streams == 4 { 2 } else { 0 }) & !(if streams == 5 { 4 } else { 0 });
        Some(crate::spawn::StdHoles::make(mask))
    } else {
        None
    };
    // another thread of the caller changes PATH (to a value with a much longer entry, and back) while the launch is
    // being prepared: whatever value the launch works with, what it prepared before the fork fits what the child does
    let flipping = use_path && rng.chance(120);
    let stop_flip = std::sync::Arc::new(std::sync::atomic::AtomicBool::new(false));
    let flipper = if flipping {
        ctx.count("launches_while_another_thread_changes_PATH", 1);
        let (a, stop) = (path_os.clone(), stop_flip.clone());
        let mut b = OsString::from(format!("/nonexistent/{}:", "F".repeat(rng.range(600, 5000) as usize)));
        b.push(&path_os);
        Some(std::thread::spawn(move || {
            while !stop.load(SeqCst) {
                std::env::set_var("PATH", &b);
                std::env::set_var("PATH", &a);
            }
            std::env::set_var("PATH", &a);
        }))
    } else {
        None
    };
    let m = run::monitored(|| Popen::create(&argv, config));
    stop_flip.store(true, SeqCst);
    if let Some(h) = flipper {
        let _ = h.join();
    }
    match old {
        Some(p) => std::env::set_var("PATH", p),
        None => std::env::remove_var("PATH"),
    }
    let evs = m.events();
    let sh = ilog::shared().unwrap();
    let allocs = sh.child_allocs.load(SeqCst);
    let deallocs = sh.child_deallocs.load(SeqCst);
    let execs = sh.child_exec_attempts.load(SeqCst);
    let child_steps = evs.iter().filter(|e| e.child != 0).count();
    ctx.count("children_watched", 1);
    ctx.count("child_side_events", child_steps as i64);
    ctx.count("exec_attempts_in_children", execs as i64);
    ctx.count("deallocations_in_children(informational)", deallocs as i64);
    let err_text = match &m.result {
        Some(Err(e)) => format!("{:?}", e),
        _ => String::new(),
    };
    let outcome = match &m.result {
        Some(Ok(_)) => "started",
        Some(Err(_)) => "failed",
        None => "panic",
    };
    ctx.count(&format!("outcome.{}", outcome), 1);
    if let Some(Ok(mut p)) = m.result {
        let _ = p.wait();
    }
    // (only now: the handle's pipe ends may sit on the low numbers, and closing them must not hit the restored descriptors)
    drop(holes);
    let shape = format!(
        "name{} path={}({} entries, longest {} at {}) args{} cwd{} streams{} fail={:?}{} executable={}",
        name_len, use_path, ents.len(), long_len, ["first", "middle", "last"][long_pos as usize], nargs, cwd_len, streams, fail_step.map(k::name),
        if fail_step == Some(k::EXECVE) { format!("({} {})", spawn_errno(fail_errno), if fail_nth == 0 { "every attempt" } else { "first attempt only" }) } else { String::new() }, use_executable
    );
    if child_steps == 0 {
        ctx.inconclusive("forked child left no trace in the log (not exercised)", J::s(&shape));
    } else if execs == 0 && fail_step.is_none() && cwd.is_none() && !(only_separators && use_path) {
        ctx.inconclusive("child never reached exec", J::s(&format!("{} {}", shape, err_text)));
    }
    if allocs > 0 {
        let frames = allocwatch::symbolised();
        // signature: innermost frames that are not the allocator / watch itself
        let mut where_ = String::from("unknown");
        if let Some((_, fr)) = frames.first() {
            for f in fr {
                if f.contains("allocwatch") || f.contains("__rust_alloc") || f.contains("__rg_") || f.contains("alloc::") || f.contains("backtrace") || f.contains("GlobalAlloc") {
                    continue;
                }
                where_ = f.split(" at ").next().unwrap_or(f).trim().to_string();
                break;
            }
        }
        let class = if where_.contains("set_current_dir") || where_.contains("chdir") || where_.contains("run_path_with_cstr") || where_.contains("run_with_cstr") { "cwd".to_string() } else { where_.clone() };
        ctx.count("allocations_in_children", allocs as i64);
        ctx.violation(
            &format!("C17/alloc-in-child/{}", class),
            &format!("{} heap allocation(s) between fork and exec (first in {})", allocs, where_),
            J::obj()
                .set("shape", J::s(&shape))
                .set("allocations", J::Arr(frames.iter().take(3).map(|(sz, fr)| J::obj().set("size", J::i(*sz as i64)).set("backtrace", J::arr_s(&fr.iter().take(14).cloned().collect::<Vec<_>>()))).collect()))
                .set("child_events", J::arr_s(&evs.iter().filter(|e| e.child != 0).map(ilog::fmt_ev).take(30).collect::<Vec<_>>())),
        );
    }
    ctx.distinct(&format!("{}|{}|{}|{}|{}|{}|{:?}|{}|{}|{}", name_len / 50, use_path, nent / 20, long_pos, cwd_len / 100, streams, fail_step, succeed, use_executable, if fail_step == Some(k::EXECVE) { fail_errno } else { 0 }));
    if use_executable {
        ctx.count("launches_naming_the_program_apart_from_argv0", 1);
    }
    if i < 2 {
        ctx.sample(J::s(&shape));
    }
    run::end_case();
}

pub fn run(ctx: &mut Ctx) {
    if !canary(ctx) {
        ctx.inconclusive("allocator-watch canary not seen: the watch is not live", J::Null);
        return;
    }
    let n = ctx.n(4000, 100_000);
    ctx.family("shapes", n, shape_case);
}

fn spawn_errno(e: i32) -> String {
    crate::spawn::errno_name(e)
}
