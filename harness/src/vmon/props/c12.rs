// C12 — handles clean up after themselves: no zombies, no self-inflicted drop hang.
// (handle, child behaviour, drop point, detached) tuples; oracles: deadlock certificate
// (wait-for graph from /proc, never a timeout) and process-table audit after the drop.

use crate::ilog::{self, k};
use crate::json::J;
use crate::rng::Rng;
use crate::run::{self, Ctx};
use crate::spawn;
use std::io::{Read, Write};
use subprocess::{Exec, Redirection};

const HANDLES: [&str; 12] = ["popen", "join", "capture", "stream_stdout", "stream_stderr", "stream_stdin", "pl_stream_stdout", "pl_stream_stdin", "pl_join", "pl_capture", "communicate", "pl_communicate"];

struct Behaviour {
    name: &'static str,
    script: &'static str, // for handles whose child writes to stdout
    produces: u64,        // bytes written to the observed stream
    needs_eof: bool,
}

const BEHAVIOURS: [Behaviour; 12] = [
    // the program cannot be started at all: the forked child of the attempt is nobody's to reap but the handle's
    Behaviour { name: "fails-to-start", script: "x0", produces: 0, needs_eof: false },
    // closes its stdin at once (the parent's input runs into EPIPE), then writes more than a pipe holds
    Behaviour { name: "closes-stdin-then-writes", script: "c0,w@:300000:8192,x0", produces: 300000, needs_eof: true },
    Behaviour { name: "exits-at-once", script: "x0", produces: 0, needs_eof: false },
    Behaviour { name: "exits-late", script: "s40,x3", produces: 0, needs_eof: false },
    Behaviour { name: "reads-to-eof", script: "R,x0", produces: 0, needs_eof: true },
    Behaviour { name: "writes-little", script: "w@:100:50,x0", produces: 100, needs_eof: false },
    Behaviour { name: "writes-below-capacity", script: "w@:60000:4096,x0", produces: 60000, needs_eof: false },
    Behaviour { name: "writes-above-capacity", script: "w@:300000:8192,x0", produces: 300000, needs_eof: false },
    Behaviour { name: "unbounded-writer", script: "w@:4000000000:65536,x0", produces: 4_000_000_000, needs_eof: false },
    // `while :; do echo ...; done`: ignores write errors, so closing the read end releases it only through SIGPIPE
    Behaviour { name: "writes-forever-ignoring-errors", script: "Z@", produces: 4_000_000_000, needs_eof: false },
    // job control: the child is stopped for a while (suspended, not terminated), continues and exits: it is waited for
    // until it has really terminated
    Behaviour { name: "stopped-for-a-while-then-exits", script: "T40,x7", produces: 0, needs_eof: false },
    Behaviour { name: "reads-then-writes", script: "R,w@:200000:4096,x0", produces: 200000, needs_eof: true },
];

fn io_exec(ctx: &Ctx, script: &str, stream: u8, rep: &std::path::Path) -> Exec {
    let s = script.replace('@', &format!("{}", stream));
    Exec::cmd(&ctx.vchild).arg("io").arg("7").arg(s).arg(rep)
}

fn passthrough(ctx: &Ctx, idx: u32, rep: &std::path::Path) -> Exec {
    // stage <idx> <a> <b> <nerr> <linger_ms> <exit> <report>
    Exec::cmd(&ctx.vchild).args(&["stage", &idx.to_string(), "1", "0", "0", "0", "0"]).arg(rep)
}

fn case(ctx: &mut Ctx, rng: &mut Rng, i: u64, sigpipe_blocked: bool, free_std: u8) {
    let handle = HANDLES[(i % HANDLES.len() as u64) as usize];
    let b = &BEHAVIOURS[((i / HANDLES.len() as u64) % BEHAVIOURS.len() as u64) as usize];
    let drop_point = (i / (HANDLES.len() * BEHAVIOURS.len()) as u64) % 3; // 0 nothing consumed, 1 partly, 2 fully
    let detached = (i / (HANDLES.len() * BEHAVIOURS.len() * 3) as u64) % 2 == 1;
    // combinations that are not meaningful for a handle
    let reads_stream = matches!(handle, "stream_stdout" | "stream_stderr" | "pl_stream_stdout");
    let writes_stdin = matches!(handle, "stream_stdin" | "pl_stream_stdin");
    let unattended = matches!(handle, "popen" | "join" | "pl_join");
    if unattended && (b.produces > 0 && false) {
        return;
    }
    // a child that waits for EOF on an *inherited* stdin would wait for the worker's own stdin file: that is EOF at once (regular file)
    // an unbounded writer to an inherited stdout would fill the worker's scratch file: skip
    let unbounded = b.produces >= 4_000_000_000;
    if unbounded && !reads_stream {
        return;
    }
    // a Communicator does not own the processes (they are detached by definition): only a failed start is its to clean up
    let communicator = matches!(handle, "communicate" | "pl_communicate");
    if communicator && b.name != "fails-to-start" {
        return;
    }
    run::begin_case();
    let dir = ctx.scratch("c12");
    let rep = dir.join("rep");
    let stream = if handle == "stream_stderr" { 2 } else { 1 };
    let mut e = io_exec(ctx, b.script, stream, &rep);
    if b.name == "fails-to-start" {
        e = Exec::cmd(dir.join("no-such-program")).arg("x");
    }
    if (unattended && handle != "pl_join") || handle == "stream_stdin" {
        // output nobody reads goes to /dev/null so that it cannot block
        e = e.stdout(subprocess::NullFile);
    }
    if detached {
        e = e.detached();
        // every other detached command is started from a clone: a clone describes the same command, detached included
        if i % 2 == 0 {
            e = e.clone();
        }
    }
    let p1 = passthrough(ctx, 1, &dir.join("rep1"));
    let p1 = if detached { p1.detached() } else { p1 };
    let want_read: u64 = match drop_point {
        0 => 0,
        1 => (b.produces / 3).min(100_000),
        _ => u64::MAX,
    };
    let want_read = if unbounded { want_read.min(500_000) } else { want_read };
    // the handle may also go away because the caller's frame is unwound by a panic (a worker thread that dies, a
    // catch_unwind): the child is reaped all the same
    let by_panic = !detached && matches!(handle, "popen" | "stream_stdout" | "stream_stderr" | "stream_stdin" | "pl_stream_stdout" | "pl_stream_stdin") && b.name != "fails-to-start" && (i / 7) % 3 == 1;
    if by_panic {
        ctx.count("handles_dropped_by_unwinding", 1);
    }
    let tag = format!("{}/{}/{}{}{}{}", handle, b.name, ["nothing-consumed", "partly-consumed", "fully-consumed"][drop_point as usize], if detached { "/detached" } else { "" }, if sigpipe_blocked { "/spawned-with-SIGPIPE-blocked" } else { "" }, if free_std != 0 { format!("/parent-fds-closed:{:03b}", free_std) } else { String::new() }) + if by_panic { "/dropped-by-unwinding" } else { "" };
    // the environment of the spawning thread is the caller's business: here it has SIGPIPE (and SIGUSR1) blocked
    let mut old_mask: libc::sigset_t = unsafe { std::mem::zeroed() };
    if sigpipe_blocked {
        unsafe {
            let mut set: libc::sigset_t = std::mem::zeroed();
            libc::sigemptyset(&mut set);
            libc::sigaddset(&mut set, libc::SIGPIPE);
            libc::sigaddset(&mut set, libc::SIGUSR1);
            libc::pthread_sigmask(libc::SIG_BLOCK, &set, &mut old_mask);
        }
        ctx.count("handles_exercised_with_SIGPIPE_blocked_in_the_spawning_thread", 1);
    }
    let input = vec![b'i'; 150_000];
    // the caller is a daemon that has closed some of its own standard descriptors: the pipe ends the handle keeps get
    // the numbers 0..2, which the child is about to use for its own streams
    let holes = if free_std != 0 {
        ctx.count("handles_exercised_with_parent_standard_descriptors_closed", 1);
        Some(spawn::StdHoles::make(free_std))
    } else {
        None
    };
    let m = run::monitored(|| -> Result<String, String> {
        match handle {
            "popen" => {
                let mut p = e.stdin(if b.needs_eof { Redirection::Pipe } else { Redirection::None }).popen().map_err(|e| e.to_string())?;
                // the caller can and does release the pipe end of a plain Popen itself
                drop(p.stdin.take());
                if by_panic {
                    let _held = p;
                    panic!("the caller panics while it holds the handle");
                }
                drop(p);
                Ok("dropped".into())
            }
            "join" => e.join().map(|s| format!("{:?}", s)).map_err(|e| e.to_string()),
            "capture" => {
                let e = if b.needs_eof { e.stdin(input.clone()) } else { e };
                e.stdout(Redirection::Pipe).capture().map(|c| format!("{:?} {} bytes", c.exit_status, c.stdout.len())).map_err(|e| e.to_string())
            }
            "stream_stdout" | "stream_stderr" => {
                let mut r: Box<dyn Read> = if handle == "stream_stdout" { Box::new(e.stream_stdout().map_err(|e| e.to_string())?) } else { Box::new(e.stream_stderr().map_err(|e| e.to_string())?) };
                let mut got = 0u64;
                let mut buf = vec![0u8; 8192];
                while got < want_read {
                    let n = r.read(&mut buf).map_err(|e| e.to_string())?;
                    if n == 0 {
                        break;
                    }
                    got += n as u64;
                }
                if by_panic {
                    let _held = r;
                    panic!("the caller panics while it holds the handle");
                }
                drop(r);
                Ok(format!("read {} then dropped", got))
            }
            "stream_stdin" => {
                let mut w = e.stream_stdin().map_err(|e| e.to_string())?;
                if drop_point > 0 {
                    let _ = w.write(&input[..if drop_point == 1 { 1000 } else { 60000 }]);
                }
                if by_panic {
                    let _held = w;
                    panic!("the caller panics while it holds the handle");
                }
                drop(w);
                Ok("dropped".into())
            }
            "pl_stream_stdout" => {
                let mut r = (e | p1).stream_stdout().map_err(|e| e.to_string())?;
                let mut got = 0u64;
                let mut buf = vec![0u8; 8192];
                while got < want_read {
                    let n = r.read(&mut buf).map_err(|e| e.to_string())?;
                    if n == 0 {
                        break;
                    }
                    got += n as u64;
                }
                drop(r);
                Ok(format!("read {} then dropped", got))
            }
            "pl_stream_stdin" => {
                // first stage reads the pipeline's stdin, second stage is the scripted child
                let mut w = (p1 | e).stdout(subprocess::NullFile).stream_stdin().map_err(|e| e.to_string())?;
                if drop_point > 0 {
                    let _ = w.write(&input[..if drop_point == 1 { 1000 } else { 60000 }]);
                }
                drop(w);
                Ok("dropped".into())
            }
            "pl_join" => (e | p1).stdout(subprocess::NullFile).join().map(|s| format!("{:?}", s)).map_err(|e| e.to_string()),
            "pl_capture" => {
                let pl = e | p1;
                let pl = if b.needs_eof { pl.stdin(input.clone()) } else { pl };
                pl.capture().map(|c| format!("{:?} {} bytes", c.exit_status, c.stdout.len())).map_err(|e| e.to_string())
            }
            "communicate" => e.stdout(Redirection::Pipe).communicate().map(|c| { drop(c); "communicator dropped".to_string() }).map_err(|e| e.to_string()),
            // the first command starts, the scripted one (which cannot be started) comes second
            "pl_communicate" => (p1 | e).communicate().map(|c| { drop(c); "communicator dropped".to_string() }).map_err(|e| e.to_string()),
            _ => unreachable!(),
        }
    });
    if sigpipe_blocked {
        unsafe { libc::pthread_sigmask(libc::SIG_SETMASK, &old_mask, std::ptr::null_mut()) };
    }
    drop(holes);
    let evs = m.events();
    let pids = spawn::forked_pids(&evs);
    ctx.count("handles_exercised", 1);
    ctx.count(&format!("handle.{}", handle), 1);
    let w = |extra: J| {
        J::obj()
            .set("case", J::s(&tag))
            .set("result", J::s(&format!("{:?}", m.result)))
            .set("events_tail", J::arr_s(&ilog::fmt_tail(&evs.iter().filter(|e| e.kind != k::READ && e.kind != k::WRITE).cloned().collect::<Vec<_>>(), 30)))
            .set("detail", extra)
    };
    if b.name == "fails-to-start" {
        // whatever the terminator returned (an error), nothing of the attempt may be left
        ctx.count("failed_launches_audited", 1);
        if let Some(c) = &m.cert {
            ctx.violation(&format!("C12/hang-after-failed-launch/{}", handle), "a command could not be started and the call did not return: it waits for a command that is itself waiting for a pipe end the call still holds", w(run::cert_json(c)));
            ctx.distinct(&tag);
            run::end_case();
            return;
        }
        for p in &pids {
            spawn::wait_dead(*p, 500);
        }
        // commands of a pipeline that did start and are detached are not the handle's to wait for; the child forked
        // for the command that failed (the last fork of the attempt) always is
        let audited: Vec<i32> = if detached { pids.last().cloned().into_iter().collect() } else { pids.clone() };
        let left = spawn::surviving(&audited);
        if !left.is_empty() {
            ctx.violation(&format!("C12/zombie-after-failed-launch/{}", handle), "the child forked for a command that could not be started was not reaped", w(J::s(&format!("{:?}", left))));
        }
        ctx.distinct(&tag);
        run::end_case();
        return;
    }
    if let Some(c) = &m.cert {
        ctx.violation(
            &format!("C12/drop-hang/{}/{}", handle, b.name),
            "dropping / completing the handle deadlocked on a pipe the handle itself still holds",
            w(run::cert_json(c)),
        );
    } else if m.panic.is_some() && !(by_panic && m.panic.as_deref().map(|p| p.contains("the caller panics")).unwrap_or(false)) {
        ctx.violation(&format!("C12/panic/{}", handle), "panic", w(J::s(m.panic.as_deref().unwrap_or(""))));
    } else {
        ctx.count("children_audited", pids.len() as i64);
        if detached {
            // must not have waited for the children (unless a terminator like join/capture is *defined* as waiting) and must not block
            if !matches!(handle, "join" | "capture" | "pl_join" | "pl_capture") {
                let waited: Vec<String> = evs.iter().filter(|e| e.child == 0 && e.kind == k::WAIT4 && pids.contains(&(e.a[0] as i32))).map(ilog::fmt_ev).collect();
                ctx.count("detached_drops", 1);
                if !waited.is_empty() {
                    ctx.violation(&format!("C12/detached-drop-waits/{}", handle), "dropping a detached handle waited for / reaped the child", w(J::arr_s(&waited)));
                }
            }
        } else {
            let left = spawn::surviving(&pids);
            if !left.is_empty() {
                let z = left.iter().any(|s| s.1 == 'Z');
                ctx.violation(
                    &format!("C12/{}-left/{}", if z { "zombie" } else { "running-child" }, handle),
                    "after the handle was dropped / the call completed a child it started has not been reaped",
                    w(J::s(&format!("{:?}", left))),
                );
            }
        }
    }
    ctx.distinct(&tag);
    if i < 3 {
        ctx.sample(J::s(&tag));
    }
    let _ = rng;
    run::end_case();
}

/// Calls that are documented to panic (input data without a piped stdin, a piped stdin without input data): the panic
/// reaches the caller - the handle that unwinds with it must not wait for a child that is itself waiting for the
/// handle's own end of its stdin - and the child is reaped like after any other drop.
fn misuse_that_panics(ctx: &mut Ctx, _rng: &mut Rng, i: u64) {
    run::begin_case();
    let dir = ctx.scratch("c12p");
    let rep = dir.join("rep");
    let kind = i % 4;
    let argv: Vec<std::ffi::OsString> = vec![ctx.vchild.clone().into_os_string(), "io".into(), "7".into(), (if kind < 3 { "R,w1:10:10,x0" } else { "w1:10:10,x0" }).into(), rep.into_os_string()];
    let m = run::monitored(|| -> String {
        match kind {
            // stdin is a pipe and there is nothing to send
            0 => format!("{:?}", Exec::cmd(&argv[0]).args(&argv[1..]).stdin(Redirection::Pipe).stdout(Redirection::Pipe).capture().map(|c| c.stdout.len()).map_err(|e| e.to_string())),
            1 => {
                let mut p = subprocess::Popen::create(&argv, subprocess::PopenConfig { stdin: Redirection::Pipe, stdout: Redirection::Pipe, ..Default::default() }).unwrap();
                format!("{:?}", p.communicate_bytes(None).map(|r| r.0.map(|v| v.len())).map_err(|e| e.to_string()))
            }
            2 => {
                let mut p = subprocess::Popen::create(&argv, subprocess::PopenConfig { stdin: Redirection::Pipe, ..Default::default() }).unwrap();
                let mut c = p.communicate_start(None);
                format!("{:?}", c.read().map(|r| r.0.map(|v| v.len())).map_err(|e| e.error.to_string()))
            }
            // input data and no pipe to send it through
            _ => {
                let mut p = subprocess::Popen::create(&argv, subprocess::PopenConfig { stdout: Redirection::Pipe, ..Default::default() }).unwrap();
                format!("{:?}", p.communicate_bytes(Some(b"data")).map(|r| r.0.map(|v| v.len())).map_err(|e| e.to_string()))
            }
        }
    });
    let evs = m.events();
    let pids = spawn::forked_pids(&evs);
    ctx.count("documented_panics_provoked_while_a_handle_is_held", 1);
    ctx.distinct(&format!("misuse|{}", kind));
    let w = |extra: J| J::obj().set("misuse", J::s(["capture() with a piped stdin and no input", "communicate_bytes(None) with a piped stdin", "communicate_start(None) with a piped stdin", "communicate_bytes(Some) without a piped stdin"][kind as usize])).set("result", J::s(&format!("{:?} / panic: {:?}", m.result, m.panic))).set("detail", extra);
    if let Some(c) = &m.cert {
        ctx.violation(&format!("C12/drop-hang/misuse-{}", kind), "the handle that unwinds with a documented panic waits for a child that is waiting for the handle's own end of its stdin", w(run::cert_json(c)));
    } else if m.hard_timeout {
        ctx.inconclusive("misuse case did not end (no certificate)", w(J::Null));
    } else {
        for p in &pids {
            spawn::wait_dead(*p, 300);
        }
        let left = spawn::surviving(&pids);
        ctx.count("children_audited", pids.len() as i64);
        if !left.is_empty() {
            ctx.violation(&format!("C12/child-left/misuse-{}", kind), "after the call ended (by its documented panic or otherwise) a child it had started has not been reaped", w(J::s(&format!("{:?}", left))));
        }
    }
    run::end_case();
}

pub fn run(ctx: &mut Ctx) {
    ctx.family("misuse-that-panics", 24, misuse_that_panics);
    let total = (HANDLES.len() * BEHAVIOURS.len() * 3 * 2) as u64;
    ctx.max("tuples_enumerated", total as i64);
    let reps = ctx.n(3, 40);
    // every third repetition runs with SIGPIPE blocked in the spawning thread
    // ... and every third one with some of the caller's own standard descriptors closed
    ctx.family("tuples", total * reps, move |ctx, rng, i| {
        let rep = i / total;
        let free = if rep % 3 == 2 { [1u8, 3, 2, 5, 7, 4, 6][((i + rep) % 7) as usize] } else { 0 };
        case(ctx, rng, i % total, rep % 3 == 1, free)
    });
}
