// C18 — children start with a clean signal state regardless of the parent.
// The spawning thread blocks signals / the process changes its SIGPIPE disposition;
// every child (single commands and all stages of pipelines) reports SigBlk/SigIgn from
// /proc/self/status and the kernel's SIGPIPE disposition; a behavioural probe writes to
// a pipe whose reader is gone and must die of SIGPIPE.

use crate::ilog;
use crate::json::J;
use crate::rng::Rng;
use crate::run::{self, Ctx};
use crate::spawn;
use std::path::PathBuf;
use subprocess::{Exec, ExitStatus, Pipeline, Popen, PopenConfig, Redirection};

fn blockable(sig: i32) -> bool {
    sig != libc::SIGKILL && sig != libc::SIGSTOP && sig != 32 && sig != 33 && (1..=64).contains(&sig)
}

unsafe fn set_mask(sigs: &[i32]) -> libc::sigset_t {
    let mut set: libc::sigset_t = std::mem::zeroed();
    libc::sigemptyset(&mut set);
    for &s in sigs {
        libc::sigaddset(&mut set, s);
    }
    let mut old: libc::sigset_t = std::mem::zeroed();
    libc::pthread_sigmask(libc::SIG_SETMASK, &set, &mut old);
    old
}

unsafe fn restore_mask(old: &libc::sigset_t) {
    libc::pthread_sigmask(libc::SIG_SETMASK, old, std::ptr::null_mut());
}

extern "C" fn noop_handler(_: i32) {}

unsafe fn set_sigpipe(mode: u64) -> libc::sighandler_t {
    let h = match mode {
        0 => libc::SIG_IGN,
        1 => libc::SIG_DFL,
        _ => noop_handler as usize,
    };
    // half of the "ignored" cases ignore it the other way a program can: sigaction() with SIG_IGN in sa_sigaction and
    // SA_SIGINFO among the flags (the kernel treats it as a plain ignore, and exec preserves it)
    if mode == 0 && ODD_IGNORE.fetch_add(1, std::sync::atomic::Ordering::SeqCst) % 2 == 1 {
        let old = libc::signal(libc::SIGPIPE, libc::SIG_IGN);
        let mut sa: libc::sigaction = std::mem::zeroed();
        sa.sa_sigaction = libc::SIG_IGN;
        sa.sa_flags = libc::SA_SIGINFO | libc::SA_RESTART;
        libc::sigemptyset(&mut sa.sa_mask);
        libc::sigaction(libc::SIGPIPE, &sa, std::ptr::null_mut());
        return old;
    }
    libc::signal(libc::SIGPIPE, h)
}

static ODD_IGNORE: std::sync::atomic::AtomicU64 = std::sync::atomic::AtomicU64::new(0);

fn check_report(ctx: &mut Ctx, who: &str, class: &str, mask: &[i32], sigpipe_mode: u64, exe: &PathBuf) {
    match spawn::get_report(exe, 4000) {
        None => ctx.inconclusive("child did not report", J::s(who)),
        Some(r) => {
            ctx.count("children_inspected", 1);
            let w = J::obj()
                .set("child", J::s(who))
                .set("parent_thread_mask", J::s(&format!("{:?}", mask)))
                .set("parent_sigpipe", J::s(["ignored", "default", "handler"][sigpipe_mode as usize]))
                .set("child_SigBlk", J::s(&format!("{:016x}", r.sigblk)))
                .set("child_SigIgn", J::s(&format!("{:016x}", r.sigign)))
                .set("child_sigpipe", J::s(&r.sigpipe));
            if r.sigblk != 0 {
                ctx.violation(&format!("C18/blocked-signals/{}", class), "the child starts with a non-empty signal mask", w.clone());
            }
            if r.sigign & (1 << (libc::SIGPIPE - 1)) != 0 || r.sigpipe != "dfl" {
                ctx.violation(&format!("C18/sigpipe-not-default/{}", class), "SIGPIPE is not at its default action in the child", w);
            }
        }
    }
}

fn single(ctx: &mut Ctx, mask: Vec<i32>, sigpipe_mode: u64, tag: &str, from_thread: bool) {
    single_v(ctx, mask, sigpipe_mode, tag, from_thread, 0)
}

/// `variant` != 0: the launch is not the plain one - streams are redirected, the file for a stream already sits on
/// that stream's descriptor number (the parent had closed it), options are set, or the first exec attempt fails with a
/// transient error.  Whatever path the child takes to the program, it arrives there with a clean signal state.
fn single_v(ctx: &mut Ctx, mask: Vec<i32>, sigpipe_mode: u64, tag: &str, from_thread: bool, variant: u64) {
    use crate::ilog::k;
    use crate::plan::{self, Rule};
    run::begin_case();
    let dir = ctx.scratch("c18");
    let exe = spawn::report_exe(ctx, &dir, "s", "x");
    let exe2 = exe.clone();
    let mask2 = mask.clone();
    let mut vr = Rng::new(variant, 18, 0);
    let mut config = PopenConfig::default();
    let mut what = String::new();
    let mut on_own_number: Option<(i32, i32)> = None; // (stream, saved copy of the parent's descriptor)
    let mut transient: Option<i32> = None;
    let mut path_value: Option<std::ffi::OsString> = None;
    let mut bare_name: Option<std::ffi::OsString> = None;
    if variant != 0 {
        let mk = |vr: &mut Rng, s: usize, dir: &std::path::Path| match vr.below(4) {
            0 => Redirection::None,
            1 => Redirection::Pipe,
            2 => Redirection::File(std::fs::OpenOptions::new().create(true).read(true).write(true).open(dir.join(format!("f{}", s))).unwrap()),
            _ => {
                if s == 2 { Redirection::Merge } else { Redirection::None }
            }
        };
        config.stdin = mk(&mut vr, 0, &dir);
        config.stdout = mk(&mut vr, 1, &dir);
        config.stderr = mk(&mut vr, 2, &dir);
        if vr.chance(300) {
            config.setpgid = true;
        }
        if vr.chance(300) {
            config.cwd = Some(dir.clone().into_os_string());
        }
        if vr.chance(300) {
            config.env = Some(vec![("A".into(), "b".into())]);
        }
        if vr.chance(300) {
            // an identity is asked for - the caller's own, which needs no privilege: the child takes another route to
            // the program and arrives with the same clean signal state
            let which = vr.below(3);
            if which != 1 {
                config.setuid = Some(unsafe { libc::geteuid() });
            }
            if which != 0 {
                config.setgid = Some(unsafe { libc::getegid() });
            }
            what.push_str(" own-identity-requested");
            ctx.count("launches_that_ask_for_the_callers_own_identity", 1);
        }
        if vr.chance(400) {
            // the parent has closed its descriptor s; the file it opens next gets that number and is handed over for stream s
            let s = vr.below(3) as i32;
            let _g = crate::inspect::proc_guard();
            let keep = unsafe {
                let keep = libc::syscall(libc::SYS_fcntl, s, libc::F_DUPFD_CLOEXEC, 100) as i32;
                libc::syscall(libc::SYS_close, s);
                keep
            };
            let f = std::fs::OpenOptions::new().create(true).read(true).write(true).open(dir.join(format!("own{}", s))).unwrap();
            use std::os::unix::io::AsRawFd;
            what.push_str(&format!(" file-for-stream-{}-sits-on-fd-{}", s, f.as_raw_fd()));
            match s {
                0 => config.stdin = Redirection::File(f),
                1 => config.stdout = Redirection::File(f),
                _ => config.stderr = Redirection::File(f),
            }
            on_own_number = Some((s, keep));
            ctx.count("launches_with_a_stream_file_on_its_own_descriptor_number", 1);
        }
        if vr.chance(300) {
            // the program is found through PATH, after entries in which something of that name exists but cannot be
            // started (no execute permission, a directory, not an executable format): the attempts that fail leave no
            // trace in the signal state of the program that is finally started
            use std::os::unix::fs::PermissionsExt;
            let name = exe.file_name().unwrap().to_owned();
            let mut entries = vec![];
            for (j, kind) in ["noexec", "directory", "garbage"].iter().enumerate() {
                if vr.chance(600) {
                    let d = dir.join(format!("path{}", j));
                    let _ = std::fs::create_dir_all(&d);
                    match *kind {
                        "noexec" => {
                            std::fs::write(d.join(&name), b"#!/bin/true\n").unwrap();
                            std::fs::set_permissions(d.join(&name), std::fs::Permissions::from_mode(0o644)).unwrap();
                        }
                        "directory" => {
                            let _ = std::fs::create_dir_all(d.join(&name));
                        }
                        _ => {
                            std::fs::write(d.join(&name), b"\x00\x01 not an executable").unwrap();
                            std::fs::set_permissions(d.join(&name), std::fs::Permissions::from_mode(0o755)).unwrap();
                        }
                    }
                    entries.push(d);
                }
            }
            entries.push(dir.clone());
            path_value = Some(std::env::join_paths(entries).unwrap());
            bare_name = Some(name);
            what.push_str(" found-through-PATH-after-unstartable-candidates");
            ctx.count("launches_found_through_PATH_after_unstartable_candidates", 1);
        }
        if path_value.is_none() && vr.chance(350) {
            let e = *vr.pick(&[libc::ETXTBSY, libc::EAGAIN, libc::EINTR, libc::ENOMEM]);
            transient = Some(e);
            what.push_str(&format!(" first-exec-attempt-fails-with-{}", spawn::errno_name(e)));
            ctx.count("launches_whose_first_exec_attempt_fails_transiently", 1);
        }
        what = format!("{:?}/{:?}/{:?}{}{}{}{}", config.stdin, config.stdout, config.stderr, if config.setpgid { " setpgid" } else { "" }, if config.cwd.is_some() { " cwd" } else { "" }, if config.env.is_some() { " env" } else { "" }, what);
    }
    // (no Rc inside: only None/Pipe/File/Merge are used here, so the configuration may move to the spawning thread)
    struct Movable(PopenConfig);
    unsafe impl Send for Movable {}
    let config = Movable(config);
    let old_path = std::env::var_os("PATH");
    if let Some(p) = &path_value {
        std::env::set_var("PATH", p);
    }
    // in every other launch the caller has handlers installed for a few other signals (as programs do): they have no
    // bearing on what the program is started with
    static LAUNCHES: std::sync::atomic::AtomicU64 = std::sync::atomic::AtomicU64::new(0);
    let launch_no = LAUNCHES.fetch_add(1, std::sync::atomic::Ordering::SeqCst);
    let other_handlers = launch_no % 2 == 1;
    if other_handlers {
        ctx.count("launches_from_a_caller_with_handlers_for_other_signals", 1);
    }
    // ... and where the spawning thread has blocked a signal that is ignored by default, one such signal reaches the new
    // process right after the fork in half of the cases: it is pending there while blocked
    let self_signal = if launch_no % 4 < 2 { [libc::SIGURG, libc::SIGWINCH, libc::SIGCHLD].iter().cloned().find(|s| mask.contains(s)) } else { None };
    if self_signal.is_some() {
        ctx.count("children_that_get_a_blocked_signal_right_after_the_fork", 1);
    }
    let body = move || {
        let config = config;
        let config = config.0;
        let argv = vec![bare_name.clone().unwrap_or_else(|| exe2.clone().into_os_string())];
        unsafe {
            let oldp = set_sigpipe(sigpipe_mode);
            let others = [libc::SIGXFSZ, libc::SIGUSR2, libc::SIGHUP, libc::SIGXCPU];
            let mut old_handlers = vec![];
            if other_handlers {
                for &sg in &others {
                    old_handlers.push((sg, libc::signal(sg, noop_handler as usize)));
                }
            }
            crate::interpose::CHILD_SELF_SIGNAL.store(self_signal.unwrap_or(0), std::sync::atomic::Ordering::SeqCst);
            let old = set_mask(&mask2);
            if let Some(e) = transient {
                plan::add(Rule { kind: k::EXECVE, scope: plan::SCOPE_CHILD, nth: 1, fd: -1, act: plan::ACT_FAIL, val: e as i64, prob: 1000 });
            }
            let r = run::monitored(|| Popen::create(&argv, config));
            restore_mask(&old);
            crate::interpose::CHILD_SELF_SIGNAL.store(0, std::sync::atomic::Ordering::SeqCst);
            for (sg, h) in old_handlers {
                libc::signal(sg, h);
            }
            libc::signal(libc::SIGPIPE, oldp);
            r
        }
    };
    let m = if from_thread { std::thread::scope(|s| s.spawn(body).join().unwrap()) } else { body() };
    if path_value.is_some() {
        match old_path {
            Some(p) => std::env::set_var("PATH", p),
            None => std::env::remove_var("PATH"),
        }
    }
    if let Some((s, keep)) = on_own_number {
        let _g = crate::inspect::proc_guard();
        unsafe {
            libc::syscall(libc::SYS_dup3, keep, s, 0);
            libc::syscall(libc::SYS_close, keep);
        }
    }
    match m.result {
        Some(Ok(mut p)) => {
            drop(p.stdin.take());
            drop(p.stdout.take());
            drop(p.stderr.take());
            let _ = p.wait();
            check_report(ctx, &format!("single command{}", if what.is_empty() { String::new() } else { format!(" [{}]", what) }), tag, &mask, sigpipe_mode, &exe);
        }
        // a launch whose only exec attempt was made to fail has every right to fail
        Some(Err(_)) if transient.is_some() => ctx.count("launches_that_failed_with_the_injected_error", 1),
        Some(Err(e)) => ctx.violation(&format!("C18/launch-failed/{}", tag), &format!("launch failed: {:?}", e), J::s(&format!("{:?} {}", mask, what))),
        None => ctx.violation(&format!("C18/panic/{}", tag), "panic", J::Null),
    }
    ctx.count("masks_tried", 1);
    run::end_case();
}

fn pipeline(ctx: &mut Ctx, rng: &mut Rng, _i: u64) {
    run::begin_case();
    let dir = ctx.scratch("c18p");
    let n = rng.range(2, 5) as usize;
    let mask: Vec<i32> = (1..=64).filter(|&s| blockable(s) && rng.chance(400)).collect();
    let sigpipe_mode = rng.below(3);
    let exes: Vec<PathBuf> = (0..n).map(|j| spawn::report_exe(ctx, &dir, &format!("p{}", j), "x")).collect();
    let cmds: Vec<Exec> = exes.iter().map(Exec::cmd).collect();
    let via = rng.below(3);
    let m = unsafe {
        let oldp = set_sigpipe(sigpipe_mode);
        let old = set_mask(&mask);
        let r = run::monitored(|| {
            let pl = Pipeline::from_exec_iter(cmds);
            match via {
                0 => pl.join().map(|_| ()),
                1 => pl.capture().map(|_| ()),
                _ => pl.popen().map(|mut v| {
                    for p in v.iter_mut() {
                        let _ = p.wait();
                    }
                }),
            }
        });
        restore_mask(&old);
        libc::signal(libc::SIGPIPE, oldp);
        r
    };
    if let Some(Err(e)) = &m.result {
        ctx.violation("C18/launch-failed/pipeline", &format!("pipeline failed: {:?}", e), J::Null);
    }
    for (j, exe) in exes.iter().enumerate() {
        check_report(ctx, &format!("stage {} of {}", j, n), "pipeline-stage", &mask, sigpipe_mode, exe);
        ctx.count("pipeline_stages_inspected", 1);
    }
    ctx.distinct(&format!("pl|{}|{:?}|{}|{}", n, mask, sigpipe_mode, via));
    run::end_case();
}

fn behavioural(ctx: &mut Ctx, rng: &mut Rng, _i: u64) {
    // a writer whose reader is gone must die of SIGPIPE, the way it does under a shell
    run::begin_case();
    let dir = ctx.scratch("c18b");
    let exe = spawn::report_exe(ctx, &dir, "b", "P");
    let sigpipe_mode = rng.below(3);
    let mask: Vec<i32> = if rng.chance(500) { vec![libc::SIGPIPE] } else { (1..=64).filter(|&s| blockable(s) && rng.chance(300)).collect() };
    let argv = vec![exe.clone().into_os_string()];
    let m = unsafe {
        let oldp = set_sigpipe(sigpipe_mode);
        let old = set_mask(&mask);
        let r = run::monitored(|| Popen::create(&argv, PopenConfig { stdout: Redirection::Pipe, ..Default::default() }));
        restore_mask(&old);
        libc::signal(libc::SIGPIPE, oldp);
        r
    };
    if let Some(Ok(mut p)) = m.result {
        let _ = spawn::get_report(&exe, 4000);
        drop(p.stdout.take()); // reader gone
        std::fs::write(format!("{}.go", spawn::report_path(&exe).display()), b"go").unwrap();
        let st = ilog::quiet(|| p.wait());
        ctx.count("sigpipe_probes", 1);
        match st {
            Ok(ExitStatus::Signaled(s)) if s as i32 == libc::SIGPIPE => {}
            other => ctx.violation(
                "C18/writer-survives-closed-pipe",
                "a child writing to a pipe whose reader is gone did not die of SIGPIPE",
                J::obj().set("status", J::s(&format!("{:?}", other))).set("parent_mask", J::s(&format!("{:?}", mask))).set("parent_sigpipe", J::i(sigpipe_mode as i64)),
            ),
        }
    }
    ctx.distinct(&format!("beh|{:?}|{}", mask, sigpipe_mode));
    run::end_case();
}

/// Several threads spawn at the same time (each with its own mask): the clean signal state of a child must not depend
/// on what another thread is doing to the process-wide SIGPIPE disposition at that moment, and the parent's own
/// disposition and masks must be what they were afterwards.
fn concurrent(ctx: &mut Ctx, rng: &mut Rng, i: u64) {
    run::begin_case();
    let dir = ctx.scratch("c18c");
    let nthreads = rng.range(3, 8) as usize;
    let rounds = rng.range(4, 10) as usize;
    let sigpipe_mode = i % 3;
    let mut exes: Vec<Vec<PathBuf>> = vec![];
    for t in 0..nthreads {
        exes.push((0..rounds).map(|r| spawn::report_exe(ctx, &dir, &format!("t{}r{}", t, r), "x")).collect());
    }
    let masks: Vec<Vec<i32>> = (0..nthreads).map(|_| (1..=64).filter(|&s| blockable(s) && rng.chance(300)).collect()).collect();
    let exes2 = exes.clone();
    let masks2 = masks.clone();
    let before = unsafe {
        let oldp = set_sigpipe(sigpipe_mode);
        oldp
    };
    // in every other storm yet another thread of the caller keeps changing what the process does with SIGPIPE (ignore /
    // default / ignore ...): whatever the action is at any moment around a fork, the program starts with the default
    let flipping = (i / 3) % 2 == 1;
    let stop = std::sync::Arc::new(std::sync::atomic::AtomicBool::new(false));
    let flipper = if flipping {
        ctx.count("storms_while_another_thread_changes_the_SIGPIPE_action", 1);
        // (widens the distance between a look at the action in the parent, if there is one, and the fork)
        crate::plan::seed(rng.next());
        crate::plan::add(crate::plan::Rule { kind: crate::ilog::k::SIGACTION, scope: crate::plan::SCOPE_PARENT, nth: 0, fd: -1, act: crate::plan::ACT_DELAY_AFTER, val: -300, prob: 700 });
        crate::plan::add(crate::plan::Rule { kind: crate::ilog::k::SIGNAL, scope: crate::plan::SCOPE_PARENT, nth: 0, fd: -1, act: crate::plan::ACT_DELAY_AFTER, val: -300, prob: 700 });
        let stop2 = stop.clone();
        Some(std::thread::spawn(move || {
            let mut n = 0u64;
            while !stop2.load(std::sync::atomic::Ordering::SeqCst) {
                unsafe { libc::signal(libc::SIGPIPE, if n % 2 == 0 { libc::SIG_DFL } else { libc::SIG_IGN }) };
                n += 1;
                std::thread::sleep(std::time::Duration::from_micros(150));
            }
            n
        }))
    } else {
        None
    };
    let m = run::monitored(move || {
        let hs: Vec<_> = (0..nthreads)
            .map(|t| {
                let mine = exes2[t].clone();
                let mask = masks2[t].clone();
                std::thread::spawn(move || {
                    ilog::set_subject(true);
                    unsafe {
                        let old = set_mask(&mask);
                        for exe in &mine {
                            if let Ok(mut p) = Popen::create(&[exe.clone().into_os_string()], PopenConfig::default()) {
                                let _ = p.wait();
                            }
                        }
                        // the thread's own mask must be what it set
                        let mut cur: libc::sigset_t = std::mem::zeroed();
                        libc::pthread_sigmask(libc::SIG_SETMASK, std::ptr::null(), &mut cur);
                        let kept = mask.iter().all(|&s| libc::sigismember(&cur, s) == 1);
                        restore_mask(&old);
                        ilog::set_subject(false);
                        kept
                    }
                })
            })
            .collect();
        hs.into_iter().map(|h| h.join().unwrap_or(false)).collect::<Vec<bool>>()
    });
    stop.store(true, std::sync::atomic::Ordering::SeqCst);
    if let Some(f) = flipper {
        let _ = f.join();
    }
    // the process-wide disposition must be what the test set, not what a spawn left behind
    let now = unsafe { libc::signal(libc::SIGPIPE, before) };
    let want = match sigpipe_mode { 0 => libc::SIG_IGN, 1 => libc::SIG_DFL, _ => noop_handler as usize };
    ctx.count("concurrent_spawn_storms", 1);
    if now != want && !flipping {
        ctx.violation("C18/parent-sigpipe-changed", "after concurrent spawns the parent's own SIGPIPE disposition is not what it was", J::obj().set("mode", J::i(sigpipe_mode as i64)));
    }
    if let Some(kept) = &m.result {
        if kept.iter().any(|k| !k) {
            ctx.violation("C18/parent-mask-changed", "a spawning thread's own signal mask was altered by spawning", J::Null);
        }
    }
    for t in 0..nthreads {
        for exe in &exes[t] {
            check_report(ctx, &format!("thread {} of {}", t, nthreads), "concurrent", &masks[t], sigpipe_mode, exe);
            ctx.count("children_of_concurrent_spawns_inspected", 1);
        }
    }
    ctx.distinct(&format!("conc|{}|{}|{}|{}", nthreads, rounds, sigpipe_mode, i));
    run::end_case();
}

pub fn run(ctx: &mut Ctx) {
    let nc = ctx.n(60, 600);
    ctx.family("concurrent", nc, concurrent);
    // each single blockable signal x each parent SIGPIPE disposition
    ctx.family("single-signal", 64 * 3, |ctx, _rng, i| {
        // the disposition changes from case to case within a worker (a library that remembers the parent's
        // disposition from an earlier spawn must not get away with it)
        let sig = (i / 3) as i32 + 1;
        let mode = i % 3;
        if !blockable(sig) {
            return;
        }
        ctx.distinct(&format!("one|{}|{}", sig, mode));
        if i < 2 {
            ctx.sample(J::obj().set("blocked", J::s(&format!("[{}]", sig))).set("parent_sigpipe", J::i(mode as i64)));
        }
        single(ctx, vec![sig], mode, "single-signal", false);
    });
    let nr = ctx.n(800, 20_000);
    ctx.family("random-mask", nr, |ctx, rng, i| {
        let all = i % 10 == 0;
        let mask: Vec<i32> = (1..=64).filter(|&s| blockable(s) && (all || rng.chance(500))).collect();
        let mode = rng.below(3);
        ctx.distinct(&format!("rnd|{:?}|{}", mask, mode));
        single(ctx, mask, mode, if i % 2 == 0 { "random-mask" } else { "secondary-thread" }, i % 2 == 1);
    });
    let nv = ctx.n(800, 20_000);
    ctx.family("launch-variants", nv, |ctx, rng, i| {
        let mask: Vec<i32> = (1..=64).filter(|&s| blockable(s) && rng.chance(500)).collect();
        let mode = rng.below(3);
        let v = rng.next() | 1;
        ctx.distinct(&format!("var|{}|{}", v % 4096, mode));
        single_v(ctx, mask, mode, "launch-variant", i % 4 == 3, v);
    });
    let np = ctx.n(300, 6000);
    ctx.family("pipeline", np, pipeline);
    let nb = ctx.n(200, 3000);
    ctx.family("behavioural", nb, behavioural);
}
