// C09 / C10 — exit status truthful and final; signals only to the live child.
// Histories of Popen operations interleaved with a monitor-controlled child exit are
// stepped against a small sequential model; the interposed waitpid/kill log is joined
// with the model's "termination observed" point.

use crate::ilog::{self, k, Ev};
use crate::json::J;
use crate::rng::Rng;
use crate::run::{self, Ctx};
use crate::spawn;
use std::ffi::OsString;
use std::time::Duration;
use subprocess::unix::PopenExt;
use subprocess::{ExitStatus, Popen, PopenConfig};

#[derive(Clone, Debug, PartialEq)]
enum Op {
    Poll,
    Wait,
    WaitTimeout(u64), // ms
    WaitTimeoutExit(u64, u64), // wait_timeout(d ms) during which the child exits, at_ms after the call started (virtual time)
    WaitInterrupted, // wait() whose first waitpid is interrupted by a signal handler (EINTR); the child exits right after
    Pid,
    ExitStatusQ,
    Terminate,
    Kill,
    Send(i32),
    Detach,
    ExternalReap,
    ChildExit, // the monitor makes the child exit now (code or signal fixed per case)
    Stop,      // job control: somebody stops the child (SIGSTOP); it is suspended, not terminated
    Cont,      // ... and continues it
    SpawnOther, // the caller starts, and waits for, an unrelated command through the library
}

#[derive(Clone, Copy, Debug, PartialEq)]
enum Truth {
    Running,
    Dead(ExitStatus), // terminated, not yet reaped by anyone
}

struct Kid {
    pid: i32,
    fifo_fd: i32,
}

fn spawn_ctl(ctx: &mut Ctx, dir: &std::path::Path) -> Option<(Popen, Kid)> {
    spawn_ctl_cfg(ctx, dir, false, 0).map(|(p, k, _)| (p, k))
}

/// Keeps the thread that started a child alive until dropped.
pub struct Starter(Option<std::sync::mpsc::Sender<()>>, Option<std::thread::JoinHandle<()>>);

impl Drop for Starter {
    fn drop(&mut self) {
        drop(self.0.take());
        if let Some(h) = self.1.take() {
            let _ = h.join();
        }
    }
}

/// `started_by`: 0 = the thread that goes on to use the handle; 1 = another thread, which stays around for as long as
/// the returned Starter lives; 2 = another thread, which finishes as soon as the child is started.
fn spawn_ctl_cfg(ctx: &mut Ctx, dir: &std::path::Path, own_group: bool, started_by: u8) -> Option<(Popen, Kid, Starter)> {
    let fifo = dir.join("ctl.fifo");
    let _ = std::fs::remove_file(&fifo);
    let c = std::ffi::CString::new(fifo.to_string_lossy().as_bytes()).unwrap();
    unsafe {
        if libc::mkfifo(c.as_ptr(), 0o600) != 0 {
            return None;
        }
    }
    // O_RDWR on a FIFO never blocks and keeps a writer present
    let fd = unsafe { libc::syscall(libc::SYS_open, c.as_ptr(), libc::O_RDWR | libc::O_CLOEXEC, 0) as i32 };
    if fd < 0 {
        return None;
    }
    let argv = vec![ctx.vchild.clone().into_os_string(), OsString::from("ctl"), fifo.into_os_string()];
    let mut starter = Starter(None, None);
    let result = if started_by == 0 {
        run::monitored(|| Popen::create(&argv, PopenConfig { setpgid: own_group, ..Default::default() })).result
    } else {
        let (tx_res, rx_res) = std::sync::mpsc::channel();
        let (tx_stay, rx_stay) = std::sync::mpsc::channel::<()>();
        let stays = started_by == 1;
        let h = std::thread::spawn(move || {
            let m = run::monitored(|| Popen::create(&argv, PopenConfig { setpgid: own_group, ..Default::default() }));
            let _ = tx_res.send(m.result);
            if stays {
                // (ends when the Starter is dropped)
                let _ = rx_stay.recv();
            }
        });
        let r = rx_res.recv().ok().flatten();
        if stays {
            starter = Starter(Some(tx_stay), Some(h));
        } else {
            drop(tx_stay);
            let _ = h.join();
        }
        r
    };
    match result {
        Some(Ok(p)) => {
            let pid = p.pid().unwrap() as i32;
            Some((p, Kid { pid, fifo_fd: fd }, starter))
        }
        _ => {
            unsafe { crate::interpose::real_close(fd) };
            None
        }
    }
}

/// Ground truth about a terminated child, straight from the kernel (without reaping).
fn kernel_status(pid: i32, block: bool) -> Option<ExitStatus> {
    unsafe {
        let mut info: libc::siginfo_t = std::mem::zeroed();
        let flags = libc::WEXITED | libc::WNOWAIT | if block { 0 } else { libc::WNOHANG };
        loop {
            let r = libc::syscall(libc::SYS_waitid, libc::P_PID, pid, &mut info as *mut _, flags, 0usize);
            if r == 0 {
                break;
            }
            if *libc::__errno_location() != libc::EINTR {
                return None;
            }
        }
        if info.si_pid() == 0 {
            return None;
        }
        let st = info.si_status();
        if info.si_code == libc::CLD_DUMPED {
            CORES_DUMPED.fetch_add(1, std::sync::atomic::Ordering::SeqCst);
        }
        match info.si_code {
            libc::CLD_EXITED => Some(ExitStatus::Exited(st as u32)),
            libc::CLD_KILLED | libc::CLD_DUMPED => Some(ExitStatus::Signaled(st as u8)),
            _ => Some(ExitStatus::Other(st)),
        }
    }
}

fn make_exit(kid: &Kid, how: (u8, u8)) -> Option<ExitStatus> {
    let b = [how.0, how.1];
    unsafe {
        libc::syscall(libc::SYS_write, kid.fifo_fd, b.as_ptr(), 2usize);
    }
    kernel_status(kid.pid, true)
}

fn wait_dead_bounded(pid: i32, ms: u64) -> Option<ExitStatus> {
    let t0 = std::time::Instant::now();
    loop {
        if let Some(s) = kernel_status(pid, false) {
            return Some(s);
        }
        if t0.elapsed().as_millis() as u64 > ms {
            return None;
        }
        std::thread::sleep(Duration::from_micros(200));
    }
}

const IGNORED_BY_DEFAULT: [i32; 4] = [17, 18, 23, 28];
static CORES_DUMPED: std::sync::atomic::AtomicU64 = std::sync::atomic::AtomicU64::new(0);

fn fatal(sig: i32) -> bool {
    sig >= 1 && sig <= 64 && !IGNORED_BY_DEFAULT.contains(&sig) && ![19, 20, 21, 22, 32, 33].contains(&sig)
}

fn gen_history(rng: &mut Rng) -> Vec<Op> {
    let n = rng.range(3, 12) as usize;
    let mut ops = vec![];
    for _ in 0..n {
        let op = match rng.below(14) {
            0 | 1 => Op::Poll,
            2 => {
                if rng.chance(250) { Op::WaitInterrupted } else { Op::Wait }
            }
            3 => {
                if rng.chance(400) {
                    let d = *rng.pick(&[50u64, 150, 220, 500, 1000]);
                    Op::WaitTimeoutExit(d, rng.range(1, d - 1))
                } else {
                    Op::WaitTimeout(*rng.pick(&[0, 1, 5, 30]))
                }
            }
            4 => Op::Pid,
            5 => Op::ExitStatusQ,
            6 => Op::Terminate,
            7 => Op::Kill,
            8 | 9 => {
                let s = match rng.below(5) {
                    0 => 0,
                    1 => *rng.pick(&IGNORED_BY_DEFAULT),
                    // not signal numbers at all: refused, and nothing whatever is sent
                    4 => *rng.pick(&[-1, -246, 65, 100, 255, 256, 271, 265, 1000, 65545, i32::MAX, i32::MIN + 9]),
                    _ => loop {
                        let s = rng.range(1, 64) as i32;
                        if fatal(s) {
                            break s;
                        }
                    },
                };
                Op::Send(s)
            }
            10 => Op::Detach,
            11 => Op::ExternalReap,
            12 => {
                if rng.chance(500) { Op::Stop } else { Op::SpawnOther }
            }
            _ => Op::ChildExit,
        };
        ops.push(op);
    }
    if !ops.contains(&Op::ChildExit) && rng.chance(700) {
        let at = rng.below(ops.len() as u64 + 1) as usize;
        ops.insert(at, Op::ChildExit);
    }
    ops
}

pub struct Flags {
    pub c09: bool,
    pub c10: bool,
}

fn viol(ctx: &mut Ctx, on: bool, sig: &str, what: &str, w: J) {
    if on {
        ctx.violation(sig, what, w);
    } else {
        ctx.count("violations_of_the_sibling_property(not reported here)", 1);
    }
}

fn syscalls_about(evs: &[Ev], pid: i32) -> Vec<String> {
    evs.iter()
        .filter(|e| e.child == 0 && ((e.kind == k::WAIT4 && e.a[0] == pid as i64) || (e.kind == k::KILL && e.a[0] == pid as i64) || (e.kind == k::WAITID && e.a[1] == pid as i64) || e.kind == k::KILLPG || e.kind == k::TGKILL))
        .map(ilog::fmt_ev)
        .collect()
}

fn set_stopped(pid: i32, stop: bool) {
    unsafe { crate::interpose::real_kill(pid, if stop { libc::SIGSTOP } else { libc::SIGCONT }) };
    // wait until the kernel has acted on it
    for _ in 0..5000 {
        let st = crate::inspect::proc_state(pid);
        if (st == Some('T')) == stop || st.is_none() || st == Some('Z') {
            break;
        }
        std::thread::sleep(Duration::from_micros(100));
    }
}

fn run_history(ctx: &mut Ctx, ops: &[Op], exit_how: (u8, u8), fl: &Flags, class: &str) {
    run::begin_case();
    let dir = ctx.scratch("life");
    // (the child is its own process group in part of the cases: a signal is for the process, never for its group)
    let own_group = ops.len() % 3 == 0;
    // ... and the handle is dropped by a panic unwinding through the caller's frame in part of them
    let drop_by_panic = ops.len() % 4 == 1;
    let mut stopped = false;
    // ... and the thread that starts the child has signals blocked in part of them (it handles them elsewhere, with
    // sigwait or a signalfd): what is sent to the child later is delivered to the child all the same
    let blocked_while_spawning = ops.len() % 5 == 2;
    let mut old_mask: libc::sigset_t = unsafe { std::mem::zeroed() };
    if blocked_while_spawning {
        unsafe {
            let mut set: libc::sigset_t = std::mem::zeroed();
            libc::sigfillset(&mut set);
            libc::pthread_sigmask(libc::SIG_BLOCK, &set, &mut old_mask);
        }
        ctx.count("children_started_from_a_thread_with_all_signals_blocked", 1);
    }
    // ... and in part of them the child is started by another thread of the caller than the one that uses the handle:
    // one that stays around, or one that is gone right after (a pool thread that retires) - the child is the
    // process's, not the thread's
    let started_by: u8 = if blocked_while_spawning { 0 } else { [0u8, 1, 0, 2][(ops.len() / 2) % 4] };
    match started_by {
        1 => ctx.count("children_started_by_another_thread_that_stays", 1),
        2 => ctx.count("children_started_by_a_thread_that_then_finishes", 1),
        _ => {}
    }
    let spawned = spawn_ctl_cfg(ctx, &dir, own_group, started_by);
    if blocked_while_spawning {
        unsafe { libc::pthread_sigmask(libc::SIG_SETMASK, &old_mask, std::ptr::null_mut()) };
    }
    let (mut p, kid, _starter) = match spawned {
        Some(x) => x,
        None => {
            ctx.inconclusive("could not start the controlled child", J::Null);
            run::end_case();
            return;
        }
    };
    let pid = kid.pid;
    // descriptor exhaustion: in part of the cases no further descriptor can be had (EMFILE) from here on - whichever
    // way a status query might want one (a pidfd, say), what it reports is still the truth
    if ops.len() % 3 == 1 {
        for kind in [k::PIDFD_OPEN, k::OPEN, k::DUP] {
            crate::plan::add(crate::plan::Rule { kind, scope: crate::plan::SCOPE_PARENT, nth: 0, fd: -1, act: crate::plan::ACT_FAIL, val: libc::EMFILE as i64, prob: 1000 });
        }
        ctx.count("histories_under_descriptor_exhaustion", 1);
    }
    // sleeps of wait_timeout cost no wall time (pure virtual clock, no jitter)
    crate::vclock::enable_pure(2, 0, 1, 1000, 0);
    let mut truth = Truth::Running;
    let mut reaped_externally = false;
    let mut observed: Option<ExitStatus> = None; // what the library has reported (model of its cache)
    let mut should_know = false; // a status query was made when the child was already dead / reaped by someone else
    let mut detached = false;
    let mut trace: Vec<String> = vec![];
    let hist = format!("{:?}", ops);
    let mk_w = |trace: &Vec<String>, extra: J| J::obj().set("history", J::s(&hist)).set("exit", J::s(&format!("{}{}", exit_how.0 as char, exit_how.1))).set("trace", J::arr_s(trace)).set("detail", extra);
    for (i, op) in ops.iter().enumerate() {
        // a stopped child neither obeys the monitor nor dies of a pending signal: it is continued before anything that
        // needs it to act; the stop lasts across the non-blocking queries in between
        if stopped && !matches!(op, Op::Poll | Op::WaitTimeout(_) | Op::Pid | Op::ExitStatusQ | Op::Detach | Op::Stop | Op::SpawnOther) {
            set_stopped(pid, false);
            stopped = false;
            trace.push("(job control: child continued)".into());
        }
        match op {
            Op::Stop => {
                if truth == Truth::Running && !reaped_externally && !stopped {
                    set_stopped(pid, true);
                    stopped = true;
                    ctx.count("job_control_stops", 1);
                    trace.push("job control: child stopped (suspended, still alive)".into());
                }
                continue;
            }
            Op::Cont => continue,
            Op::SpawnOther => {
                // an unrelated launch has no business with this child: no system call about it, no change to what is known
                let vchild = ctx.vchild.clone();
                let m = run::monitored(move || {
                    subprocess::Exec::cmd(&vchild).args(&["exit", "0"]).join().map(|s| format!("{:?}", s)).map_err(|e| e.to_string())
                });
                let evs: Vec<Ev> = m.events();
                let about = syscalls_about(&evs, pid);
                ctx.count("unrelated_launches_in_between", 1);
                trace.push(format!("#{} unrelated command run through the library -> {:?}   syscalls about the child: {:?}", i, m.result, about));
                if !about.is_empty() {
                    viol(ctx, fl.c09, "C09/unrelated-launch-touches-the-child", "starting an unrelated command made system calls about this child (its status can be consumed behind the owner's back)", mk_w(&trace, J::arr_s(&about)));
                }
                continue;
            }
            _ => {}
        }
        // make blocking calls safe: a wait on a running child is preceded by the child's exit
        if matches!(op, Op::Wait) && truth == Truth::Running && !reaped_externally && observed.is_none() {
            if let Some(s) = make_exit(&kid, exit_how) {
                truth = Truth::Dead(s);
                trace.push(format!("(monitor: child made to exit before blocking wait -> {:?})", s));
            }
        }
        let was_observed = observed;
        let knew = should_know;
        let mut planned = false;
        let mut interrupted = false;
        if let Op::WaitInterrupted = op {
            if truth == Truth::Running && !reaped_externally && observed.is_none() {
                // far in the virtual future: only the interrupted waitpid itself delivers it
                crate::vclock::plan_exit(i64::MAX / 4, kid.fifo_fd, pid, exit_how.0, exit_how.1);
                crate::plan::add(crate::plan::Rule { kind: k::WAIT4, scope: crate::plan::SCOPE_PARENT, nth: crate::plan::count(crate::plan::SCOPE_PARENT, k::WAIT4) + 1, fd: -1, act: crate::plan::ACT_FAIL, val: libc::EINTR as i64, prob: 1000 });
                planned = true;
                interrupted = true;
                ctx.count("interrupted_waits", 1);
            }
            // (otherwise - status already known, child already dead - it is a plain wait)
        }
        if let Op::WaitTimeoutExit(_, at) = op {
            if truth == Truth::Running && !reaped_externally {
                let now = crate::vclock::now_ns() as i64;
                crate::vclock::plan_exit(now + *at as i64 * 1_000_000, kid.fifo_fd, pid, exit_how.0, exit_how.1);
                planned = true;
            }
        }
        match op {
            Op::ChildExit => {
                if truth == Truth::Running && !reaped_externally {
                    if let Some(s) = make_exit(&kid, exit_how) {
                        truth = Truth::Dead(s);
                    }
                    trace.push(format!("child exits -> kernel says {:?}", truth));
                }
                continue;
            }
            Op::ExternalReap => {
                if let Truth::Dead(_) = truth {
                    if !reaped_externally && observed.is_none() {
                        let mut st = 0;
                        let r = unsafe { crate::interpose::real_waitpid(pid, &mut st, 0) };
                        if r == pid {
                            reaped_externally = true;
                            trace.push("someone else reaps the child".into());
                        }
                    }
                }
                continue;
            }
            _ => {}
        }
        let m = run::monitored(|| match op {
            Op::Poll => format!("{:?}", p.poll()),
            Op::Wait | Op::WaitInterrupted => format!("{:?}", p.wait().map_err(|e| e.to_string())),
            Op::WaitTimeout(ms) | Op::WaitTimeoutExit(ms, _) => format!("{:?}", p.wait_timeout(Duration::from_millis(*ms)).map_err(|e| e.to_string())),
            Op::Pid => format!("{:?}", p.pid()),
            Op::ExitStatusQ => format!("{:?}", p.exit_status()),
            Op::Terminate => format!("{:?}", p.terminate().map_err(|e| e.raw_os_error())),
            Op::Kill => format!("{:?}", p.kill().map_err(|e| e.raw_os_error())),
            Op::Send(s) => format!("{:?}", p.send_signal(*s).map_err(|e| e.raw_os_error())),
            Op::Detach => {
                p.detach();
                "()".to_string()
            }
            _ => unreachable!(),
        });
        let evs = m.events();
        let got = m.result.clone().unwrap_or_else(|| format!("PANIC {}", m.panic.clone().unwrap_or_default()));
        let about = syscalls_about(&evs, pid);
        let mut exited_during = false;
        if planned {
            if crate::vclock::EXIT_FIRED_AT.load(std::sync::atomic::Ordering::SeqCst) != 0 {
                // the kernel's verdict was taken (without reaping) at the moment the exit was delivered: the library may have reaped since
                let si = crate::vclock::EXIT_SIGINFO.load(std::sync::atomic::Ordering::SeqCst);
                let (code, st) = ((si & 0xff) as i32, (si >> 8) as i32);
                let s = match code {
                    libc::CLD_EXITED => Some(ExitStatus::Exited(st as u32)),
                    libc::CLD_KILLED | libc::CLD_DUMPED => Some(ExitStatus::Signaled(st as u8)),
                    _ => None,
                };
                if let Some(s) = s {
                    truth = Truth::Dead(s);
                    exited_during = true;
                    ctx.count("exits_delivered_inside_wait_timeout", 1);
                }
            } else {
                crate::vclock::EXIT_AT.store(0, std::sync::atomic::Ordering::SeqCst);
            }
        }
        trace.push(format!("#{} {:?} -> {}   syscalls: {:?}{}", i, op, got, about, if exited_during { "   (child exited during this call)" } else { "" }));
        if m.cert.is_some() {
            viol(ctx, fl.c09, &format!("C09/hang/{:?}", op), "a status query blocked forever", mk_w(&trace, J::Null));
            break;
        }
        if m.panic.is_some() {
            viol(ctx, true, &format!("{}/panic/{:?}", if fl.c09 { "C09" } else { "C10" }, op), "operation panicked", mk_w(&trace, J::Null));
            break;
        }
        ctx.count("operations", 1);
        // ---- a signal may only ever go to the child's own pid
        let stray: Vec<String> = evs
            .iter()
            .filter(|e| e.child == 0 && ((e.kind == k::KILL && e.a[0] != pid as i64) || e.kind == k::KILLPG || e.kind == k::TGKILL))
            .map(ilog::fmt_ev)
            .collect();
        if !stray.is_empty() {
            viol(ctx, fl.c10, "C10/signal-to-other-target", "a signal was sent to something other than the child's process id", mk_w(&trace, J::arr_s(&stray)));
        }
        // ---- once a status was reported: no further system calls about that child, ever
        if was_observed.is_some() && !about.is_empty() {
            let is_kill = about.iter().any(|s| s.starts_with("kill"));
            if is_kill {
                viol(ctx, fl.c10, "C10/signal-after-reaped", "a signal was sent although the child's termination had already been observed", mk_w(&trace, J::arr_s(&about)));
            } else {
                viol(ctx, fl.c09, "C09/syscall-after-final", "an operating-system call about the child was made after its status had been reported", mk_w(&trace, J::arr_s(&about)));
            }
        }
        // ---- per-operation expectations
        let expect_status: Option<Option<ExitStatus>> = match op {
            // Some(Some(s)) = must report s; Some(None) = must report "still running"; None = not a query
            Op::Poll | Op::WaitTimeout(_) | Op::WaitTimeoutExit(..) | Op::Wait | Op::WaitInterrupted => {
                if let Some(s) = was_observed {
                    Some(Some(s))
                } else if reaped_externally {
                    Some(Some(ExitStatus::Undetermined))
                } else {
                    match truth {
                        Truth::Dead(s) => Some(Some(s)),
                        Truth::Running => Some(None),
                    }
                }
            }
            _ => None,
        };
        if let Some(exp) = expect_status {
            ctx.count("status_queries", 1);
            let want = match (op, exp) {
                (Op::Poll, Some(s)) => format!("Some({:?})", s),
                (Op::Poll, None) => "None".to_string(),
                (Op::Wait, Some(s)) | (Op::WaitInterrupted, Some(s)) => format!("Ok({:?})", s),
                (Op::Wait, None) | (Op::WaitInterrupted, None) => "<blocks>".to_string(),
                (_, Some(s)) => format!("Ok(Some({:?}))", s),
                (_, None) => "Ok(None)".to_string(),
            };
            // the child exited while the call was in progress: a report of the true status and "still running"
            // (exit in the very last back-off slice) are both legitimate answers
            // an interrupted wait may report the interruption as an error (it is not a status) or retry and report the truth
            let late_none_ok = (exited_during && got == "Ok(None)") || (interrupted && got.starts_with("Err("));
            if exp.is_some() && !late_none_ok {
                should_know = true;
            }
            if got != want && !late_none_ok {
                let sigl = if was_observed.is_some() {
                    "C09/status-changed"
                } else if reaped_externally {
                    "C09/external-reap-not-undetermined"
                } else if exp.is_none() {
                    "C09/status-while-running"
                } else {
                    "C09/wrong-status"
                };
                viol(ctx, fl.c09, &format!("{}/{}", sigl, class), &format!("{:?} returned {} but the truth is {}", op, got, want), mk_w(&trace, J::Null));
            }
            if let Some(s) = exp {
                if got == want {
                    observed = Some(s);
                    should_know = true;
                }
            }
            // if the library reported *something* final, remember it for the finality check
            if observed.is_none() && exp.is_some() && got != want && !got.contains("None") {
                // wrong value reported: later queries are compared against the truth anyway
            }
        }
        match op {
            Op::Pid => {
                ctx.count("pid_queries", 1);
                let want = if was_observed.is_some() { "None".to_string() } else { format!("Some({})", pid) };
                if got != want {
                    viol(ctx, fl.c09, "C09/pid-after-final", &format!("pid() returned {} expected {}", got, want), mk_w(&trace, J::Null));
                }
                if !about.is_empty() {
                    viol(ctx, fl.c09, "C09/pid-makes-syscalls", "pid() made system calls", mk_w(&trace, J::Null));
                }
            }
            Op::ExitStatusQ => {
                let want = format!("{:?}", was_observed);
                if got != want {
                    viol(ctx, fl.c09, "C09/exit_status-mismatch", &format!("exit_status() returned {} expected {}", got, want), mk_w(&trace, J::Null));
                }
            }
            Op::Terminate | Op::Kill | Op::Send(_) => {
                let signo = match op {
                    Op::Terminate => libc::SIGTERM,
                    Op::Kill => libc::SIGKILL,
                    Op::Send(s) => *s,
                    _ => 0,
                };
                ctx.count("signal_calls", 1);
                let kills: Vec<&Ev> = evs.iter().filter(|e| e.child == 0 && (e.kind == k::KILL || e.kind == k::KILLPG || e.kind == k::TGKILL)).collect();
                if was_observed.is_some() || knew {
                    ctx.count("signal_calls_after_observed", 1);
                    if was_observed.is_none() && !kills.is_empty() {
                        viol(ctx, fl.c10, "C10/signal-after-termination-was-observable", "a status query had already met the dead / externally reaped child, yet a later call still sent a signal to that process id", mk_w(&trace, J::arr_s(&kills.iter().map(|e| ilog::fmt_ev(e)).collect::<Vec<_>>())));
                    }
                    if !kills.is_empty() {
                        // already reported above as signal-after-reaped
                    } else if got != "Ok(())" {
                        viol(ctx, fl.c10, "C10/not-ok-after-reaped", &format!("signalling a finished child returned {}", got), mk_w(&trace, J::Null));
                    }
                } else if reaped_externally {
                    // the library has not found out yet: outside the statement (it may signal and get ESRCH)
                    ctx.count("signal_calls_unknown_external_reap(not judged)", 1);
                } else if !(0..=64).contains(&signo) {
                    // not a signal: the call is refused (by the library or by the kernel) and the child is not touched;
                    // whatever reaches the kernel carries the number as given
                    ctx.count("signal_calls_with_an_invalid_number", 1);
                    let other: Vec<String> = kills.iter().filter(|e| e.kind != k::KILL || e.a[0] != pid as i64 || e.a[1] as i32 != signo).map(|e| ilog::fmt_ev(e)).collect();
                    if !other.is_empty() {
                        viol(ctx, fl.c10, "C10/invalid-number-sent-as-another-signal", &format!("send_signal({}) sent something else", signo), mk_w(&trace, J::arr_s(&other)));
                    }
                    if got == "Ok(())" {
                        viol(ctx, fl.c10, "C10/invalid-number-accepted", &format!("send_signal({}) reported success", signo), mk_w(&trace, J::Null));
                    }
                    std::thread::sleep(Duration::from_millis(2));
                    if truth == Truth::Running {
                        if let Some(st) = kernel_status(pid, false) {
                            truth = Truth::Dead(st);
                            viol(ctx, fl.c10, "C10/invalid-number-killed-the-child", &format!("send_signal({}) terminated the child: {:?}", signo, st), mk_w(&trace, J::Null));
                        }
                    }
                } else {
                    ctx.count("signal_calls_while_live", 1);
                    let ok = kills.len() == 1 && kills[0].kind == k::KILL && kills[0].a[0] == pid as i64 && kills[0].a[1] == signo as i64;
                    if !ok {
                        viol(
                            ctx,
                            fl.c10,
                            &format!("C10/wrong-signal-call/{}", match op { Op::Terminate => "terminate", Op::Kill => "kill", _ => "send_signal" }),
                            &format!("expected exactly one kill({}, {}), saw {:?}", pid, signo, kills.iter().map(|e| ilog::fmt_ev(e)).collect::<Vec<_>>()),
                            mk_w(&trace, J::Null),
                        );
                    } else if got != "Ok(())" {
                        viol(ctx, fl.c10, "C10/error-while-live", &format!("signalling a live child returned {}", got), mk_w(&trace, J::Null));
                    }
                    // the signal's effect on the ground truth
                    if truth == Truth::Running && signo != 0 {
                        if fatal(signo) {
                            match wait_dead_bounded(pid, 3000) {
                                Some(s) => {
                                    truth = Truth::Dead(s);
                                    trace.push(format!("(kernel: child died -> {:?})", s));
                                    ctx.count("deaths_by_requested_signal", 1);
                                    if s != ExitStatus::Signaled(signo as u8) {
                                        viol(ctx, fl.c10, "C10/wrong-signal-delivered", &format!("requested signal {} but the child died of {:?}", signo, s), mk_w(&trace, J::Null));
                                    }
                                }
                                None => viol(ctx, fl.c10, "C10/signal-not-delivered", &format!("signal {} did not terminate the child", signo), mk_w(&trace, J::Null)),
                            }
                        } else {
                            // ignored by default: the child must still be alive a moment later
                            std::thread::sleep(Duration::from_millis(2));
                            if let Some(s) = kernel_status(pid, false) {
                                truth = Truth::Dead(s);
                                viol(ctx, fl.c10, "C10/harmless-signal-killed", &format!("signal {} (ignored by default) killed the child: {:?}", signo, s), mk_w(&trace, J::Null));
                            }
                        }
                    }
                }
            }
            Op::Detach => {
                detached = true;
                if !about.is_empty() {
                    viol(ctx, fl.c09, "C09/detach-makes-syscalls", "detach() made system calls", mk_w(&trace, J::Null));
                }
            }
            _ => {}
        }
    }
    // ---- drop
    if stopped {
        set_stopped(pid, false);
    }
    if truth == Truth::Running && !reaped_externally {
        // do not let a non-detached drop block on a child that never exits
        if let Some(s) = make_exit(&kid, exit_how) {
            truth = Truth::Dead(s);
        }
    }
    let m = run::monitored(move || {
        let _handle = p;
        if drop_by_panic {
            panic!("the caller panics while it holds the handle");
        }
    });
    let evs = m.events();
    let about = syscalls_about(&evs, pid);
    ctx.count("drops", 1);
    if drop_by_panic {
        ctx.count("drops_by_a_panic_unwinding_through_the_caller", 1);
        trace.push(format!("handle dropped by unwinding; syscalls: {:?}", about));
    }
    if observed.is_some() && !about.is_empty() {
        viol(ctx, fl.c09, "C09/syscall-after-final/drop", "dropping the handle made system calls about a child whose status had been reported", mk_w(&trace, J::arr_s(&about)));
    }
    if about.iter().any(|s| s.starts_with("kill")) {
        viol(ctx, fl.c10, "C10/signal-on-drop", "dropping the handle sent a signal", mk_w(&trace, J::arr_s(&about)));
    }
    if detached && observed.is_none() && about.iter().any(|s| s.starts_with("waitpid")) {
        viol(ctx, fl.c09, "C09/detached-drop-waits", "dropping a detached handle waited for the child", mk_w(&trace, J::arr_s(&about)));
    }
    let _ = truth;
    unsafe {
        crate::interpose::real_close(kid.fifo_fd);
    }
    run::end_case();
}

pub fn run(ctx: &mut Ctx, fl: Flags) {
    run_inner(ctx, fl);
    ctx.count("children_that_really_dumped_core(kernel CLD_DUMPED seen by the monitor)", CORES_DUMPED.load(std::sync::atomic::Ordering::SeqCst) as i64);
}

/// fork() itself fails (process limit, memory): there is no child, so there is no handle - and nothing that could be
/// signalled or waited for.  Should a handle come back all the same, its operations are run under the monitor (signals
/// to process sets are logged, not carried out) and every system call they make is about something that is not a child
/// of this launch.
fn fork_fails(ctx: &mut Ctx, fl: &Flags, i: u64) {
    run::begin_case();
    let errno = [libc::EAGAIN, libc::ENOMEM][(i % 2) as usize];
    crate::plan::add(crate::plan::Rule { kind: k::FORK, scope: crate::plan::SCOPE_PARENT, nth: 0, fd: -1, act: crate::plan::ACT_FAIL, val: errno as i64, prob: 1000 });
    let argv = vec![ctx.vchild.clone().into_os_string(), OsString::from("exit"), OsString::from("0")];
    let cfg = match (i / 2) % 3 {
        0 => PopenConfig::default(),
        1 => PopenConfig { stdout: subprocess::Redirection::Pipe, ..Default::default() },
        _ => PopenConfig { detached: true, ..Default::default() },
    };
    let m = run::monitored(|| Popen::create(&argv, cfg));
    ctx.count("launches_whose_fork_fails", 1);
    ctx.distinct(&format!("forkfails|{}|{}", errno, (i / 2) % 3));
    match m.result {
        Some(Err(_)) => ctx.count("fork_failures_reported_as_errors", 1),
        None => viol(ctx, fl.c09, "C09/fork-fails/panic", "Popen::create panicked when fork() failed", J::s(m.panic.as_deref().unwrap_or(""))),
        Some(Ok(mut p)) => {
            let pid_text = format!("{:?}", p.pid());
            let m2 = run::monitored(move || {
                let t = p.terminate().map_err(|e| e.to_string());
                let kl = p.kill().map_err(|e| e.to_string());
                let polled = p.poll();
                let w = p.wait_timeout(std::time::Duration::from_millis(0)).map_err(|e| e.to_string());
                p.detach();
                format!("poll -> {:?}, terminate -> {:?}, kill -> {:?}, wait_timeout(0) -> {:?}", polled, t, kl, w)
            });
            let evs = m2.events();
            let calls: Vec<String> = evs.iter().filter(|e| e.child == 0 && matches!(e.kind, k::KILL | k::KILLPG | k::TGKILL | k::WAIT4 | k::WAITID)).map(ilog::fmt_ev).collect();
            let w = J::obj().set("fork_errno", J::s(&crate::spawn::errno_name(errno))).set("pid_of_the_handle", J::s(&pid_text)).set("operations", J::s(&format!("{:?}", m2.result))).set("system_calls", J::arr_s(&calls));
            viol(ctx, fl.c09, "C09/fork-fails/handle-without-a-child", "fork() failed, yet a handle came back: whatever it reports is not the status of a child of this launch", w.clone());
            if calls.iter().any(|c| c.starts_with("kill")) {
                viol(ctx, fl.c10, "C10/fork-fails/signal-to-something-that-is-not-the-child", "fork() failed, yet a handle came back, and its terminate()/kill() signalled something that is not a child of this launch (a pid of -1 means every process the caller may signal)", w);
            } else {
                viol(ctx, fl.c10, "C10/fork-fails/handle-without-a-child", "fork() failed, yet a handle came back", w);
            }
        }
    }
    run::end_case();
}

/// A pipeline whose later command cannot be started: the commands already running are waited for - nobody asked for
/// them to be signalled.
fn failing_pipeline_start_sends_no_signal(ctx: &mut Ctx, fl: &Flags, i: u64) {
    run::begin_case();
    let dir = ctx.scratch("lifep");
    let n = 2 + (i % 3) as usize;
    let mut cmds: Vec<subprocess::Exec> = (0..n - 1).map(|j| subprocess::Exec::cmd(&ctx.vchild).args(&["io", "3", &format!("s{},x0", 40 + 30 * j)]).arg(dir.join(format!("rep{}", j)))).collect();
    cmds.push(subprocess::Exec::cmd(dir.join("no-such-program")));
    let pl = subprocess::Pipeline::from_exec_iter(cmds).stdout(subprocess::NullFile);
    let term = (i / 3) % 3;
    let m = run::monitored(move || match term {
        0 => pl.popen().map(|v| format!("{} started", v.len())).map_err(|e| e.to_string()),
        1 => pl.join().map(|s| format!("{:?}", s)).map_err(|e| e.to_string()),
        _ => pl.capture().map(|c| format!("{:?}", c.exit_status)).map_err(|e| e.to_string()),
    });
    let evs = m.events();
    let kills: Vec<String> = evs.iter().filter(|e| e.child == 0 && matches!(e.kind, k::KILL | k::KILLPG | k::TGKILL)).map(ilog::fmt_ev).collect();
    ctx.count("failing_pipeline_starts_checked_for_signals", 1);
    ctx.distinct(&format!("plfail|{}|{}", n, term));
    if !kills.is_empty() {
        viol(ctx, fl.c10, "C10/unrequested-signal/failing-pipeline-start", "a pipeline could not start its last command and signalled the commands that were already running: a signal nobody asked for", J::obj().set("commands", J::i(n as i64)).set("result", J::s(&format!("{:?}", m.result))).set("signals", J::arr_s(&kills)));
    }
    run::end_case();
}

fn run_inner(ctx: &mut Ctx, fl: Flags) {
    ctx.family("fork-fails", 24, |ctx, _rng, i| fork_fails(ctx, &fl, i));
    ctx.family("failing-pipeline-start", 27, |ctx, _rng, i| failing_pipeline_start_sends_no_signal(ctx, &fl, i));
    // every exit code
    ctx.family("codes", 256, |ctx, rng, i| {
        let ops = match rng.below(4) {
            0 => vec![Op::ChildExit, Op::Poll, Op::Wait, Op::Poll, Op::Pid, Op::ExitStatusQ],
            1 => vec![Op::Poll, Op::ChildExit, Op::Wait, Op::WaitTimeout(0), Op::Terminate],
            2 => vec![Op::WaitTimeout(3), Op::ChildExit, Op::WaitTimeout(5), Op::Wait, Op::Kill, Op::Pid],
            _ => vec![Op::Pid, Op::Wait, Op::Poll, Op::Send(15)],
        };
        ctx.count("exit_codes_covered", 1);
        ctx.distinct(&format!("code{}", i));
        if i < 2 {
            ctx.sample(J::obj().set("exit_code", J::i(i as i64)).set("history", J::s(&format!("{:?}", ops))));
        }
        run_history(ctx, &ops, (b'x', i as u8), &fl, "code");
    });
    // every fatal signal
    ctx.family("signals", 64, |ctx, rng, i| {
        let sig = i as i32 + 1;
        if !fatal(sig) {
            return;
        }
        let ops = match rng.below(3) {
            0 => vec![Op::ChildExit, Op::Wait, Op::Poll, Op::Send(sig)],
            1 => vec![Op::Poll, Op::ChildExit, Op::Poll, Op::Wait, Op::Pid],
            _ => vec![Op::Send(sig), Op::Wait, Op::Poll, Op::ExitStatusQ, Op::Terminate],
        };
        ctx.count("fatal_signals_covered", 1);
        ctx.distinct(&format!("sig{}", sig));
        run_history(ctx, &ops, (b'k', sig as u8), &fl, "signal");
    });
    // core-dumping signals with core files enabled: the "core dumped" flag must not leak into the reported signal number
    ctx.family("core-dumps", 10 * ctx.n(2, 6), |ctx, rng, i| {
        let sig = [3, 4, 5, 6, 7, 8, 11, 24, 25, 31][(i % 10) as usize];
        let ops = match rng.below(3) {
            0 => vec![Op::ChildExit, Op::Wait, Op::Poll, Op::ExitStatusQ],
            1 => vec![Op::Poll, Op::ChildExit, Op::Poll, Op::Pid, Op::Terminate],
            _ => vec![Op::ChildExit, Op::WaitTimeout(5), Op::Wait, Op::Kill],
        };
        ctx.count("core_dump_cases", 1);
        ctx.distinct(&format!("core{}", sig));
        run_history(ctx, &ops, (b'K', sig as u8), &fl, "core-dump");
    });
    // the status reported by the terminators that wait themselves (join, capture - also of detached commands and of
    // pipelines): the child closes its streams, lives on for a while and only then terminates; what comes back is how
    // it really terminated, never a status made up while it was still running
    if fl.c09 {
        let nt = ctx.n(240, 6000);
        ctx.family("terminator-status", nt, |ctx, rng, i| {
            run::begin_case();
            let dir = ctx.scratch("lifet");
            let by_signal = rng.chance(300);
            let (op, truth) = if by_signal {
                let s = loop {
                    let s = rng.range(1, 31) as i32;
                    if fatal(s) {
                        break s;
                    }
                };
                (format!("k{}", s), ExitStatus::Signaled(s as u8))
            } else {
                let c = rng.below(256);
                (format!("x{}", c), ExitStatus::Exited(c as u32))
            };
            let linger = *rng.pick(&[0u64, 1, 5, 30, 120]);
            let script = format!("w1:{}:100,c1,c2,s{},{}", rng.range(0, 3000), linger, op);
            let how = ["capture", "detached-capture", "join", "detached-join", "pipeline-capture", "pipeline-join", "cloned-detached-capture"][(i % 7) as usize];
            let e = subprocess::Exec::cmd(&ctx.vchild).args(&["io", "5", &script]).arg(dir.join("rep"));
            let pass = subprocess::Exec::cmd(&ctx.vchild).args(&["stage", "0", "1", "0", "0", "0", "0"]).arg(dir.join("stage.rep"));
            let m = run::monitored(move || -> Result<ExitStatus, String> {
                match how {
                    "capture" => e.capture().map(|c| c.exit_status).map_err(|e| e.to_string()),
                    "detached-capture" => e.detached().capture().map(|c| c.exit_status).map_err(|e| e.to_string()),
                    "cloned-detached-capture" => e.detached().clone().capture().map(|c| c.exit_status).map_err(|e| e.to_string()),
                    "join" => e.stdout(subprocess::NullFile).join().map_err(|e| e.to_string()),
                    "detached-join" => e.stdout(subprocess::NullFile).detached().join().map_err(|e| e.to_string()),
                    // the scripted command is the last one: the pipeline's status is its status
                    "pipeline-capture" => (pass | e).capture().map(|c| c.exit_status).map_err(|e| e.to_string()),
                    _ => (pass | e).stdout(subprocess::NullFile).join().map_err(|e| e.to_string()),
                }
            });
            ctx.count("terminator_statuses_compared", 1);
            ctx.distinct(&format!("term|{}|{}|{}", how, linger, by_signal));
            let w = J::obj().set("terminator", J::s(how)).set("child_script", J::s(&script)).set("result", J::s(&format!("{:?} {:?}", m.result, m.panic)));
            match &m.result {
                Some(Ok(s)) if *s == truth => {}
                Some(Ok(s)) => ctx.violation(&format!("C09/wrong-status/terminator/{}", how), &format!("{} reported {:?}; the command closed its streams, ran on for {} ms and then terminated with {:?}", how, s, linger, truth), w),
                Some(Err(e)) => ctx.violation(&format!("C09/terminator-failed/{}", how), &format!("{} failed: {}", how, e), w),
                None => {
                    if m.cert.is_some() || m.panic.is_some() {
                        ctx.violation(&format!("C09/terminator-failed/{}", how), "hung or panicked", w);
                    }
                }
            }
            run::end_case();
        });
    }
    // random histories
    let n = ctx.n(3000, 100_000);
    ctx.family("histories", n, |ctx, rng, i| {
        let ops = gen_history(rng);
        let how = if rng.chance(700) { (b'x', rng.below(256) as u8) } else {
            let s = loop {
                let s = rng.range(1, 64) as i32;
                if fatal(s) {
                    break s;
                }
            };
            (b'k', s as u8)
        };
        // distinct op n-grams around the exit point
        if let Some(pos) = ops.iter().position(|o| *o == Op::ChildExit) {
            let lo = pos.saturating_sub(2);
            let hi = (pos + 3).min(ops.len());
            ctx.distinct(&format!("{:?}", &ops[lo..hi]));
        } else {
            ctx.distinct(&format!("noexit{:?}", &ops[..ops.len().min(4)]));
        }
        if i < 2 {
            ctx.sample(J::s(&format!("{:?}", ops)));
        }
        ctx.count("histories", 1);
        run_history(ctx, &ops, how, &fl, "history");
    });
}
