// C11 — poll never blocks; wait_timeout is accurate and does not busy-wait.
// Runs on the pure virtual clock: sleeps advance virtual time (plus injected oversleep
// jitter), the child's exit is delivered at a planned virtual instant (really: the
// monitor tells the child to exit and waits until it is a zombie), so "the child exited
// 37 ms into the 64 ms back-off sleep, 19 days after the call" costs no wall time.

use crate::ilog::{self, k};
use crate::json::J;
use crate::plan;
use crate::rng::Rng;
use crate::run::{self, Ctx};
use crate::vclock;
use std::ffi::OsString;
use std::sync::atomic::Ordering::SeqCst;
use std::time::Duration;
use subprocess::{ExitStatus, Popen, PopenConfig};

const MS: i64 = 1_000_000;
const JITTER: i64 = 2 * MS;

#[derive(Clone, Copy, Debug, PartialEq)]
enum Place {
    Before,      // child already dead when the call starts
    Known,       // status already reported by an earlier query
    InSleep(u32), // inside the j-th back-off sleep
    At(i64),     // at this offset (ns) from the start of the call
    AtDeadline,
    BeforeDeadline(i64), // this many ns before the deadline (inside the final back-off nap)
    Never,
    /// the child is dead and somebody else has already collected it (the process ignores SIGCHLD, a handler or another
    /// thread called wait): there is no status to be had any more, but the child is certainly not running
    ReapedElsewhere,
    /// the child never exits and is, on top of that, stopped by job control (suspended, not terminated) during the call
    Stopped,
    /// the child never exits; after a few naps the calling thread is not scheduled until shortly before the deadline
    /// (the machine was suspended): makes "still running after 26 days" affordable
    NeverLongSuspend,
}

fn backoff_start(j: u32) -> (i64, i64) {
    // (virtual offset at which the j-th sleep starts, its nominal length), ignoring jitter and clipping
    let mut t = 0i64;
    let mut d = MS;
    for _ in 1..j {
        t += d;
        d = (d * 2).min(100 * MS);
    }
    (t, d)
}

fn spawn_ctl(ctx: &mut Ctx, dir: &std::path::Path) -> Option<(Popen, i32, i32)> {
    let fifo = dir.join("ctl.fifo");
    let c = std::ffi::CString::new(fifo.to_string_lossy().as_bytes()).unwrap();
    unsafe {
        if libc::mkfifo(c.as_ptr(), 0o600) != 0 {
            return None;
        }
    }
    let fd = unsafe { libc::syscall(libc::SYS_open, c.as_ptr(), libc::O_RDWR | libc::O_CLOEXEC, 0) as i32 };
    let argv = vec![ctx.vchild.clone().into_os_string(), OsString::from("ctl"), fifo.into_os_string()];
    let m = run::monitored(|| Popen::create(&argv, PopenConfig::default()));
    match m.result {
        Some(Ok(p)) => {
            let pid = p.pid().unwrap() as i32;
            Some((p, pid, fd))
        }
        _ => None,
    }
}

fn check_poll(ctx: &mut Ctx, p: &mut Popen, expect: Option<ExitStatus>, label: &str) {
    let t0 = vclock::now_ns();
    let ticks0 = vclock::TICKS.load(SeqCst);
    let m = run::monitored(|| p.poll());
    let evs = m.events();
    let t1 = vclock::now_ns();
    let ticks = vclock::TICKS.load(SeqCst) - ticks0;
    ctx.count("poll_calls_checked", 1);
    let sleeps = evs.iter().filter(|e| e.kind == k::NANOSLEEP).count();
    let blocking_waits = evs.iter().filter(|e| (e.kind == k::WAIT4 && e.a[1] & libc::WNOHANG as i64 == 0) || (e.kind == k::WAITID && e.a[2] & libc::WNOHANG as i64 == 0)).count();
    let w = J::obj().set("state", J::s(label)).set("events", J::arr_s(&ilog::fmt_tail(&evs, 20)));
    if sleeps > 0 || blocking_waits > 0 || (t1 - t0) as i64 > ticks as i64 * vclock::TICK_NS.load(SeqCst) + 1000 {
        ctx.violation(&format!("C11/poll-blocks/{}", label), "poll() slept or issued a blocking wait", w.clone());
    }
    if m.cert.is_some() || m.panic.is_some() {
        ctx.violation(&format!("C11/poll-fails/{}", label), "poll() hung or panicked", w.clone());
    }
    if let Some(r) = m.result {
        if label == "collected-by-somebody-else" {
            if r.is_none() {
                ctx.violation(&format!("C11/poll-wrong/{}", label), "poll() says 'still running' about a child that is dead and gone", w);
            }
        } else if r != expect {
            ctx.violation(&format!("C11/poll-wrong/{}", label), &format!("poll() returned {:?}, expected {:?}", r, expect), w);
        }
    }
}

fn one(ctx: &mut Ctx, rng: &mut Rng, d_ns: i128, place: Place, code: u8) {
    run::begin_case();
    let dir = ctx.scratch("c11");
    let (mut p, pid, fifo_fd) = match spawn_ctl(ctx, &dir) {
        Some(x) => x,
        None => {
            ctx.inconclusive("could not start the controlled child", J::Null);
            run::end_case();
            return;
        }
    };
    // what one reading of the clock costs on the deterministic clock varies from case to case (1 ns ... 1 ms): code that
    // reads the clock twice and assumes that nothing has passed in between meets a clock that has moved on
    let tick: i64 = if d_ns <= 10_000_000_000 { *rng.pick(&[1000i64, 1, 37, 1000, 250_000, 1_000_000]) } else { 1000 };
    vclock::enable_pure(2, JITTER, rng.next(), tick, 0);
    // in part of the cases signal handlers of the caller cut naps short (the sleep call comes back with EINTR and the
    // time that was left): the waiting goes on for the rest of the nap, not for a whole new one
    let naps_interrupted = d_ns <= 3_600_000_000_000 && !matches!(place, Place::NeverLongSuspend) && rng.chance(300);
    if naps_interrupted {
        plan::seed(rng.next());
        plan::add(plan::Rule { kind: k::NANOSLEEP, scope: plan::SCOPE_PARENT, nth: 0, fd: -1, act: plan::ACT_FAIL, val: libc::EINTR as i64, prob: 450 });
        ctx.count("waits_whose_naps_are_interrupted_by_signal_handlers", 1);
    }
    let truth = ExitStatus::Exited(code as u32);
    let dur = Duration::new((d_ns / 1_000_000_000) as u64, (d_ns % 1_000_000_000) as u32);
    let label = format!("{:?}", place).split('(').next().unwrap().to_string();
    // poll on a running child never blocks
    check_poll(ctx, &mut p, None, "running");
    let mut exit_off: Option<i64> = None; // planned exit, ns after call start
    match place {
        Place::Before | Place::Known => {
            vclock::plan_exit(1, fifo_fd, pid, b'x', code);
            vclock::fire_exit();
            if place == Place::Known {
                check_poll(ctx, &mut p, Some(truth), "dead-unreported");
                check_poll(ctx, &mut p, Some(truth), "known");
            }
        }
        Place::InSleep(j) => {
            let (s, len) = backoff_start(j);
            let off = s + 1 + (rng.below(len as u64) as i64);
            exit_off = Some(off);
        }
        Place::At(off) => exit_off = Some(off),
        Place::AtDeadline => exit_off = Some(d_ns.min(i64::MAX as i128 / 4) as i64),
        Place::BeforeDeadline(x) => exit_off = Some((d_ns.min(i64::MAX as i128 / 4) as i64 - x).max(1)),
        Place::Never => {}
        Place::Stopped => {
            unsafe { crate::interpose::real_kill(pid, libc::SIGSTOP) };
            for _ in 0..5000 {
                if crate::inspect::proc_state(pid) == Some('T') {
                    break;
                }
                std::thread::sleep(std::time::Duration::from_micros(100));
            }
            ctx.count("queries_about_a_stopped_child", 1);
            check_poll(ctx, &mut p, None, "stopped");
        }
        Place::NeverLongSuspend => {
            let now = vclock::now_ns() as i64;
            vclock::JUMP_AFTER_SLEEPS.store(vclock::SLEEPS.load(SeqCst) + rng.range(3, 40), SeqCst);
            vclock::JUMP_TO.store(now.saturating_add((d_ns.min(i64::MAX as i128 / 4) as i64).saturating_sub(rng.range(1, 20) as i64 * 1_000_000_000)), SeqCst);
            vclock::NEVER_EXITS_PID.store(pid, SeqCst);
            ctx.count("long_waits_with_a_suspended_caller", 1);
        }
        Place::ReapedElsewhere => {
            vclock::plan_exit(1, fifo_fd, pid, b'x', code);
            vclock::fire_exit();
            let mut st = 0;
            unsafe { crate::interpose::real_waitpid(pid, &mut st, 0) };
            ctx.count("children_collected_by_somebody_else_before_the_query", 1);
            if rng.chance(500) {
                check_poll(ctx, &mut p, None, "collected-by-somebody-else");
            }
        }
    }
    let wait_before = plan::count(plan::SCOPE_PARENT, k::WAIT4);
    let sleeps_before = vclock::SLEEPS.load(SeqCst);
    let ticks_before = vclock::TICKS.load(SeqCst);
    let t0 = vclock::now_ns() as i64;
    if let Some(off) = exit_off {
        vclock::plan_exit(t0 + off, fifo_fd, pid, b'x', code);
    }
    let naps_cut_before = crate::interpose::NAP_INTERRUPTIONS.load(SeqCst);
    // spin guard: twenty thousand status checks in a row with no sleep in between are a busy-wait whatever the duration
    vclock::SPIN_COUNT.store(0, SeqCst);
    vclock::SPINS_BROKEN.store(0, SeqCst);
    vclock::SPIN_LIMIT.store(20_000, SeqCst);
    let m = run::monitored(|| p.wait_timeout(dur));
    vclock::SPIN_LIMIT.store(0, SeqCst);
    let spins = vclock::SPINS_BROKEN.swap(0, SeqCst);
    let naps_cut = (crate::interpose::NAP_INTERRUPTIONS.load(SeqCst) - naps_cut_before) as i128;
    ctx.count("naps_cut_short", naps_cut as i64);
    let t1 = vclock::now_ns() as i64;
    let elapsed = (t1 - t0) as i128;
    let waits = plan::count(plan::SCOPE_PARENT, k::WAIT4) - wait_before;
    let sleeps = vclock::SLEEPS.load(SeqCst) - sleeps_before;
    let ticks = (vclock::TICKS.load(SeqCst) - ticks_before) as i128 * tick as i128;
    let fired_at = vclock::EXIT_FIRED_AT.load(SeqCst);
    let exited_during = exit_off.is_some() && fired_at != 0;
    let evs = if ilog::overflowed() { vec![] } else { m.events() };
    ctx.count("wait_timeout_calls", 1);
    ctx.count("status_checks_total", waits as i64);
    ctx.max("status_checks_in_one_call", waits as i64);
    let w = J::obj()
        .set("d_ns", J::s(&format!("{}", d_ns)))
        .set("exit_placement", J::s(&format!("{:?}", place)))
        .set("planned_exit_offset_ns", J::s(&format!("{:?}", exit_off)))
        .set("exit_fired_at_offset_ns", J::s(&format!("{}", if fired_at != 0 { fired_at - t0 } else { -1 })))
        .set("result", J::s(&format!("{:?}", m.result.as_ref().map(|r| r.as_ref().map_err(|e| e.to_string())))))
        .set("virtual_elapsed_ns", J::s(&format!("{}", elapsed)))
        .set("status_checks", J::i(waits as i64))
        .set("sleeps", J::i(sleeps as i64))
        .set("events_tail", J::arr_s(&ilog::fmt_tail(&evs, 16)));
    // (every resumed piece of a nap may oversleep by the jitter once more)
    let slack = JITTER as i128 * (1 + naps_cut) + ticks + MS as i128;
    vclock::NEVER_EXITS_PID.store(0, SeqCst);
    if place == Place::Stopped {
        unsafe { crate::interpose::real_kill(pid, libc::SIGCONT) };
    }
    ctx.count("calls_watched_by_the_spin_guard", 1);
    if spins > 0 {
        ctx.violation(&format!("C11/busy-wait/{}", label), "wait_timeout made 20000 status checks in a row without sleeping in between (the spin guard ended the loop by letting the virtual clock run ahead)", w.clone());
    } else if vclock::BLOCKING_WAITS_ON_NEVER_EXITING.load(SeqCst) > 0 {
        ctx.violation(&format!("C11/blocks-in-wait/{}", label), "wait_timeout issued a wait without WNOHANG on a child that never exits: it would not come back at the deadline, or ever", w.clone());
    } else if m.cert.is_some() || m.panic.is_some() {
        ctx.violation(&format!("C11/wait_timeout-fails/{}", label), "wait_timeout hung or panicked", w.clone());
    } else {
        match m.result {
            Some(Ok(None)) => {
                ctx.count("answers.still_running", 1);
                ctx.max("overshoot_us_still_running", ((elapsed - d_ns) / 1000) as i64);
                if elapsed < d_ns {
                    ctx.violation(&format!("C11/early-timeout/{}", label), "wait_timeout reported 'still running' before the duration had elapsed", w.clone());
                }
                if elapsed > d_ns + slack {
                    ctx.violation(&format!("C11/late-timeout/{}", label), "wait_timeout reported 'still running' later than the duration plus a small slack", w.clone());
                }
                // the child must really have been running at the deadline (an exit planned clearly before it has to be noticed)
                // (an exit within the oversleep jitter of the deadline may legitimately go either way; anything earlier
                // had happened by the time the call returned and a final status check must have seen it)
                if let Some(off) = exit_off {
                    if place != Place::AtDeadline && (off as i128) < d_ns - 5 * MS as i128 - JITTER as i128 {
                        ctx.violation(&format!("C11/missed-exit/{}", label), "the child exited before the deadline (by more than the timing slack) but 'still running' was reported", w.clone());
                    }
                }
                if matches!(place, Place::Before | Place::Known | Place::ReapedElsewhere) {
                    ctx.violation(&format!("C11/missed-exit/{}", label), "the child was already dead but 'still running' was reported", w.clone());
                }
            }
            Some(Ok(Some(_))) if place == Place::ReapedElsewhere => {
                // whatever it reports as the status (there is none to be had), it reports it at once
                ctx.count("answers.exited", 1);
                if elapsed > 100 * MS as i128 + slack {
                    ctx.violation("C11/late-report/ReapedElsewhere", "the child was dead and gone but wait_timeout took its time to say so", w.clone());
                }
            }
            Some(Ok(Some(s))) => {
                ctx.count("answers.exited", 1);
                if s != truth {
                    ctx.violation(&format!("C11/wrong-status/{}", label), &format!("reported {:?}, truth {:?}", s, truth), w.clone());
                }
                match place {
                    Place::Known => {
                        if waits != 0 || sleeps != 0 {
                            ctx.violation("C11/known-status-not-immediate", "the status was already known but wait_timeout made system calls / slept", w.clone());
                        }
                    }
                    Place::Before => {
                        if sleeps != 0 {
                            ctx.violation("C11/dead-child-not-immediate", "the child was already dead but wait_timeout slept", w.clone());
                        }
                    }
                    Place::Never => ctx.violation("C11/status-while-running", "a status was reported although the child never exited", w.clone()),
                    _ => {
                        if !exited_during {
                            ctx.violation(&format!("C11/status-while-running/{}", label), "a status was reported before the child exited", w.clone());
                        } else {
                            let lag = (t1 - fired_at) as i128;
                            ctx.max("report_lag_us_after_exit", (lag / 1000) as i64);
                            if lag > 100 * MS as i128 + slack {
                                ctx.violation(&format!("C11/late-report/{}", label), "the exit was reported much later than a tenth of a second after it happened", w.clone());
                            }
                        }
                    }
                }
            }
            Some(Err(e)) => ctx.violation(&format!("C11/error/{}", label), &format!("wait_timeout failed: {}", e), w.clone()),
            None => {}
        }
        // bounded number of status checks: back-off (8 doublings) + one per 100 ms + 2
        let bound = 8 + (elapsed / (100 * MS as i128)) as i64 + 3;
        if waits as i64 > bound {
            ctx.violation(&format!("C11/busy-wait/{}", label), &format!("{} status checks in {} virtual ns (bound {})", waits, elapsed, bound), w.clone());
        }
    }
    // afterwards: poll on whatever state we are in must not block either
    let dead_now = exited_during || matches!(place, Place::Before | Place::Known | Place::ReapedElsewhere);
    if place == Place::ReapedElsewhere {
        check_poll(ctx, &mut p, None, "collected-by-somebody-else");
    } else {
        check_poll(ctx, &mut p, if dead_now { Some(truth) } else { None }, if dead_now { "after-exit" } else { "still-running" });
    }
    vclock::disable();
    // cleanup: make sure the child is gone before the handle is dropped
    if !dead_now {
        vclock::plan_exit(1, fifo_fd, pid, b'x', code);
        vclock::fire_exit();
    }
    drop(p);
    unsafe { crate::interpose::real_close(fifo_fd) };
    run::end_case();
}

pub fn run(ctx: &mut Ctx) {
    let s = 1_000_000_000i128;
    let mut ds: Vec<(i128, &str)> = vec![
        (0, "0"), (1, "1ns"), (999_000, "999us"), (1_000_000, "1ms"), (3_000_000, "3ms"), (127_000_000, "127ms"), (130_000_000, "130ms"),
        (1_003_000_000, "1.003s"), (10 * s, "10s"), (3600 * s, "1h"), (26 * 86400 * s, "26d"), (315_360_000 * s, "10y"), ((1i128 << 40) * s, "2^40s"),
    ];
    let places_fixed: Vec<Place> = vec![Place::Before, Place::Known, Place::AtDeadline, Place::Never, Place::ReapedElsewhere, Place::Stopped, Place::NeverLongSuspend];
    let mut plan_list: Vec<(i128, String, Place)> = vec![];
    for (d, name) in ds.drain(..) {
        for pl in &places_fixed {
            if (*pl == Place::Never || *pl == Place::AtDeadline || *pl == Place::Stopped) && d > 3600 * s {
                continue; // run to completion only up to 1 h (see "26d-never" below): one loop iteration per 100 ms of d
            }
            if *pl == Place::NeverLongSuspend && (d < 600 * s || d > 315_360_000 * s) {
                continue;
            }
            plan_list.push((d, name.to_string(), *pl));
        }
        for j in 1..=12u32 {
            let (st, len) = backoff_start(j);
            if (st + len) as i128 + 3 * MS as i128 <= d {
                plan_list.push((d, name.to_string(), Place::InSleep(j)));
            }
        }
        // inside the final nap before the deadline
        for x in [8 * MS, 30 * MS, 70 * MS, 95 * MS] {
            if (x as i128) * 2 < d && d <= 26 * 86400 * s {
                if d > 3600 * s {
                    continue; // (would need one loop iteration per 100 ms of d)
                }
                plan_list.push((d, name.to_string(), Place::BeforeDeadline(x)));
            }
        }
        // far into the wait: hours/days after the call
        for off in [90 * s, 7200 * s, 19 * 86400 * s + 37 * MS as i128] {
            if off + s < d {
                plan_list.push((d, name.to_string(), Place::At(off as i64)));
            }
        }
    }
    let total = plan_list.len() as u64;
    ctx.max("d_x_placement_pairs_enumerated", total as i64);
    let reps = ctx.n(2, 24);
    let pl2 = plan_list.clone();
    ctx.family("grid", total * reps, move |ctx, rng, i| {
        let (d, name, place) = pl2[(i % total) as usize].clone();
        ctx.distinct(&format!("{}|{:?}", name, place));
        ctx.count("pairs_run", 1);
        if i < 2 {
            ctx.sample(J::obj().set("d", J::s(&name)).set("exit", J::s(&format!("{:?}", place))));
        }
        let code = rng.below(256) as u8;
        one(ctx, rng, d, place, code);
    });
    if !ctx.quick() {
        // one full-length "still running after 26 days" run (22.5 million loop iterations)
        ctx.family("26d-never", 1, |ctx, rng, _| {
            ctx.distinct("26d|Never");
            one(ctx, rng, 26 * 86400 * s, Place::Never, 7);
        });
    }
    // random durations and exit offsets
    let nr = ctx.n(200, 20_000);
    ctx.family("random", nr, |ctx, rng, _i| {
        let d = match rng.below(4) {
            0 => rng.below(5_000_000) as i128,
            1 => rng.below(2_000_000_000) as i128,
            2 => rng.below(600) as i128 * s,
            _ => rng.below(40 * 86400) as i128 * s,
        };
        let place = match rng.below(5) {
            0 => Place::Before,
            1 => Place::Never,
            2 => Place::AtDeadline,
            _ => Place::At(rng.below((d.min(2 * 3600 * s) as u64).max(1)) as i64),
        };
        let place = if (place == Place::Never || place == Place::AtDeadline) && d > 3600 * s { Place::At((d / 2).min(3 * 3600 * s) as i64) } else { place };
        ctx.distinct(&format!("rnd|{}|{:?}", d / 1_000_000, place));
        one(ctx, rng, d, place, 3);
    });
}
