// C20 — Windows command-line assembly round-trips through Microsoft parsing rules.
// The crate's cfg(windows) assemble_cmdline/append_quoted are extracted verbatim at
// build time (build.rs) and executed here; the oracle is an independent
// re-implementation of the MSVCRT (2008+) and CommandLineToArgvW parsers.

use crate::json::J;
use crate::run::Ctx;
use crate::win_popen;
use std::ffi::OsString;

const ALPHA: [&str; 8] = ["a", " ", "\t", "\n", "\"", "\\", "é", "𝄞"];

fn is_ws(c: char) -> bool {
    c == ' ' || c == '\t'
}

/// Program-name rule shared by both parsers for the first token.
fn parse_prog(s: &[char]) -> (String, usize) {
    let mut out = String::new();
    let mut i = 0;
    let mut inq = false;
    while i < s.len() {
        let c = s[i];
        if c == '"' {
            inq = !inq;
            i += 1;
            continue;
        }
        if !inq && is_ws(c) {
            break;
        }
        out.push(c);
        i += 1;
    }
    (out, i)
}

/// MSVCRT parse_cmdline (2008 and later: "" inside a quoted part is a literal quote).
pub fn parse_msvcrt(cmd: &str) -> Vec<String> {
    let s: Vec<char> = cmd.chars().collect();
    let mut out = vec![];
    let (p0, mut i) = parse_prog(&s);
    out.push(p0);
    let mut inq = false;
    loop {
        while i < s.len() && is_ws(s[i]) {
            i += 1;
        }
        if i >= s.len() {
            break;
        }
        let mut arg = String::new();
        loop {
            let mut copy = true;
            let mut nslash = 0usize;
            while i < s.len() && s[i] == '\\' {
                i += 1;
                nslash += 1;
            }
            if i < s.len() && s[i] == '"' {
                if nslash % 2 == 0 {
                    if inq && i + 1 < s.len() && s[i + 1] == '"' {
                        i += 1;
                    } else {
                        copy = false;
                        inq = !inq;
                    }
                }
                nslash /= 2;
            }
            for _ in 0..nslash {
                arg.push('\\');
            }
            if i >= s.len() || (!inq && is_ws(s[i])) {
                break;
            }
            if copy {
                arg.push(s[i]);
            }
            i += 1;
        }
        out.push(arg);
    }
    out
}

/// CommandLineToArgvW as implemented by shell32 (Wine/ReactOS-compatible description).
pub fn parse_cltaw(cmd: &str) -> Vec<String> {
    let s: Vec<char> = cmd.chars().collect();
    let mut out = vec![];
    // first token
    let mut i = 0;
    let mut a0 = String::new();
    if !s.is_empty() && s[0] == '"' {
        i = 1;
        while i < s.len() && s[i] != '"' {
            a0.push(s[i]);
            i += 1;
        }
        if i < s.len() {
            i += 1;
        }
    } else {
        while i < s.len() && !is_ws(s[i]) {
            a0.push(s[i]);
            i += 1;
        }
    }
    out.push(a0);
    while i < s.len() && is_ws(s[i]) {
        i += 1;
    }
    if i >= s.len() {
        return out;
    }
    let mut cur: Vec<char> = vec![];
    let mut qcount = 0;
    let mut bcount = 0usize;
    while i < s.len() {
        let c = s[i];
        if is_ws(c) && qcount == 0 {
            out.push(cur.iter().collect());
            cur.clear();
            bcount = 0;
            while i < s.len() && is_ws(s[i]) {
                i += 1;
            }
            if i >= s.len() {
                return out; // trailing blanks do not start another argument
            }
            continue;
        } else if c == '\\' {
            cur.push('\\');
            bcount += 1;
            i += 1;
        } else if c == '"' {
            if bcount % 2 == 0 {
                for _ in 0..bcount / 2 {
                    cur.pop();
                }
                qcount += 1;
            } else {
                for _ in 0..(bcount / 2 + 1) {
                    cur.pop();
                }
                cur.push('"');
            }
            i += 1;
            bcount = 0;
            while i < s.len() && s[i] == '"' {
                qcount += 1;
                if qcount == 3 {
                    cur.push('"');
                    qcount = 0;
                }
                i += 1;
            }
            if qcount == 2 {
                qcount = 0;
            }
        } else {
            cur.push(c);
            bcount = 0;
            i += 1;
        }
    }
    out.push(cur.iter().collect());
    out
}

fn legal_prog(p: &str) -> bool {
    // what the first-token rule can represent at all (a platform fact, not a property of the library)
    if p.contains('"') {
        return false;
    }
    let needs_quote = p.is_empty() || p.chars().any(|c| c == ' ' || c == '\t' || c == '\n' || c == '\x0b');
    !(needs_quote && p.ends_with('\\'))
}

fn nth_string(mut n: u64) -> String {
    // bijective base-8 numeration over ALPHA: 0 -> "", 1..8 -> 1 char, ...
    let mut v = vec![];
    while n > 0 {
        n -= 1;
        v.push(ALPHA[(n % 8) as usize]);
        n /= 8;
    }
    v.reverse();
    v.concat()
}

fn count_upto(len: u32) -> u64 {
    (0..=len).map(|l| 8u64.pow(l)).sum()
}

fn check(ctx: &mut Ctx, argv: &[String], class: &str) {
    ctx.count("vectors_checked", 1);
    let os: Vec<OsString> = argv.iter().map(OsString::from).collect();
    let r = std::panic::catch_unwind(|| win_popen::call_assemble_cmdline(os));
    let cmd = match r {
        Ok(Ok(c)) => c.to_string_lossy().into_owned(),
        Ok(Err(e)) => {
            ctx.violation("C20/unexpected-error", &format!("assemble_cmdline refused a NUL-free vector: {}", e), J::obj().set("argv", J::arr_s(argv)));
            return;
        }
        Err(_) => {
            ctx.violation("C20/panic", "assemble_cmdline panicked", J::obj().set("argv", J::arr_s(argv)));
            return;
        }
    };
    let a = parse_msvcrt(&cmd);
    let b = parse_cltaw(&cmd);
    if a != argv || b != argv {
        let which = if a != argv { "msvcrt" } else { "CommandLineToArgvW" };
        ctx.violation(
            &format!("C20/roundtrip/{}", class),
            &format!("command line does not parse back to the argument vector under the {} rules", which),
            J::obj()
                .set("argv", J::arr_s(argv))
                .set("cmdline", J::s(&cmd))
                .set("parsed_msvcrt", J::arr_s(&a))
                .set("parsed_CommandLineToArgvW", J::arr_s(&b)),
        );
    }
    if argv.iter().skip(1).any(|s| s.contains('"') || s.contains('\\') || s.contains(' ') || s.is_empty() || s.contains('\t')) {
        // distinct + non-trivial: needs quoting or escaping
        ctx.distinct(&argv.join("\u{1}"));
    }
}

pub fn run(ctx: &mut Ctx) {
    if !win_popen::EXTRACTED {
        ctx.inconclusive("extraction of the cfg(windows) items from /repo/src/popen.rs failed", J::Null);
        return;
    }
    let maxlen: u32 = ctx.n(5, 7) as u32;
    let n1 = count_upto(maxlen);
    ctx.max("exhaustive_single_len", maxlen as i64);
    // every string up to maxlen as the only argument, and as a middle argument
    ctx.family("single", n1, |ctx, _rng, i| {
        let s = nth_string(i);
        check(ctx, &["prog".to_string(), s.clone()], "single");
        check(ctx, &["prog".to_string(), s.clone(), "z".to_string()], "middle");
        if i < 4 {
            ctx.sample(J::obj().set("argv", J::arr_s(&["prog".to_string(), s])));
        }
    });
    // every pair up to pairlen
    let pl: u32 = ctx.n(2, 3) as u32;
    let np = count_upto(pl);
    ctx.max("exhaustive_pair_len", pl as i64);
    ctx.family("pairs", np * np, |ctx, _rng, i| {
        let a = nth_string(i / np);
        let b = nth_string(i % np);
        check(ctx, &["prog".to_string(), a, b], "pair");
    });
    // argv[0] over legal program names
    let n0 = count_upto(ctx.n(3, 4) as u32);
    ctx.family("prog", n0, |ctx, _rng, i| {
        let p = nth_string(i);
        if legal_prog(&p) {
            check(ctx, &[p.clone(), "x y".to_string()], "prog");
            check(ctx, &[p], "prog-alone");
        } else {
            ctx.count("prog_names_outside_first_token_rule", 1);
        }
    });
    // random longer vectors
    let nr = ctx.n(200_000, 5_000_000);
    ctx.family("random", nr, |ctx, rng, _i| {
        let n = rng.range(0, 8);
        let mut v = vec!["prog".to_string()];
        for _ in 0..n {
            let l = rng.range(0, 24);
            let mut s = String::new();
            for _ in 0..l {
                // bias towards the interesting characters
                let c = if rng.chance(600) { *rng.pick(&["\"", "\\", " ", "\\", "\""]) } else { *rng.pick(&ALPHA) };
                s.push_str(c);
            }
            v.push(s);
        }
        check(ctx, &v, "random");
        ctx.sample(J::obj().set("argv", J::arr_s(&v)));
    });
    // characters whose UTF-16 code units share a byte with one of the special ASCII characters (U+0422 ends in 0x22,
    // U+305C and the low surrogate of U+1F45C in 0x5C, U+0120 in 0x20, U+5C00 / U+2200 begin with them ...): quoting
    // works on 16-bit units, never on bytes.  Exhaustive up to length 3 over this alphabet, then random strings in
    // which every unit is drawn to collide.
    const UNI: [&str; 12] = ["a", "\"", "\\", " ", "\u{0422}", "\u{305C}", "\u{1F45C}", "\u{0120}", "\u{0109}", "\u{5C00}", "\u{2200}", "\u{2022}"];
    let nu: u64 = 1 + 12 + 144 + 1728;
    ctx.family("utf16-lookalikes", nu, |ctx, _rng, i| {
        let mut n = i;
        let mut v = vec![];
        while n > 0 {
            n -= 1;
            v.push(UNI[(n % 12) as usize]);
            n /= 12;
        }
        v.reverse();
        let s: String = v.concat();
        ctx.count("strings_of_utf16_lookalikes", 1);
        check(ctx, &["prog".to_string(), s.clone()], "utf16-lookalike");
        check(ctx, &["prog".to_string(), format!("{} x", s), s.clone()], "utf16-lookalike");
        // (what the first-token rule can represent at all is a platform fact)
        if legal_prog(&format!("p{}", s)) {
            check(ctx, &[format!("p{}", s), "x y".to_string()], "utf16-lookalike-in-program");
        }
    });
    let nur = ctx.n(20_000, 1_000_000);
    ctx.family("utf16-lookalikes-random", nur, |ctx, rng, _i| {
        let n = rng.range(1, 5);
        let mut v = vec!["prog".to_string()];
        for _ in 0..n {
            let l = rng.range(0, 12);
            let mut s = String::new();
            for _ in 0..l {
                let special = *rng.pick(&[0x22u32, 0x5C, 0x20, 0x09, 0x0A, 0x0B]);
                let other = rng.range(1, 0xFF) as u32;
                let cp = match rng.below(5) {
                    0 => special,                       // the ASCII character itself
                    1 => (other << 8) | special,        // low byte collides
                    2 => (special << 8) | other,        // high byte collides
                    3 => 0x10000 + (rng.below(0x400) as u32) * 0x400 + ((rng.below(4) as u32) << 8 | special), // low surrogate's low byte collides
                    _ => rng.range(0x21, 0x7e) as u32,
                };
                if let Some(c) = char::from_u32(cp) {
                    s.push(c);
                }
            }
            v.push(s);
        }
        ctx.count("strings_of_utf16_lookalikes", 1);
        check(ctx, &v, "utf16-lookalike");
    });
    // what is handed to CreateProcessW is the assembled line, NUL-terminated, unit for unit - however long it is (the
    // operating system refuses lines beyond its limit; the library does not quietly shorten them)
    if win_popen::HAS_NULLTERM {
        let nlong = ctx.n(300, 6000);
        ctx.family("buffer-for-CreateProcessW", nlong, |ctx, rng, i| {
            let target = match i % 6 {
                0 => rng.range(0, 200),
                1 => rng.range(32_000, 32_760),
                2 => 32_760 + rng.range(0, 16), // around the 32767 limit
                3 => rng.range(32_776, 40_000),
                4 => rng.range(60_000, 140_000),
                _ => rng.range(200, 32_000),
            } as usize;
            let mut v = vec!["prog".to_string()];
            let mut len = 4;
            while len < target {
                let l = (rng.range(0, 40) as usize).min(target - len);
                let a: String = (0..l).map(|_| *rng.pick(&['a', 'b', ' ', '"', '\\', 'é', '𝄞'])).collect();
                len += a.encode_utf16().count() + 3;
                v.push(a);
            }
            let os: Vec<OsString> = v.iter().map(OsString::from).collect();
            ctx.count("buffers_compared", 1);
            if let Ok(Ok(c)) = std::panic::catch_unwind(|| win_popen::call_assemble_cmdline(os)) {
                use crate::winshim::OsStrExt;
                let units: Vec<u16> = c.encode_wide().collect();
                let buf = win_popen::call_to_nullterm(&c);
                ctx.max("longest_command_line_in_units", units.len() as i64);
                let ok = buf.len() == units.len() + 1 && buf[..units.len()] == units[..] && buf[units.len()] == 0;
                if !ok {
                    ctx.violation(
                        if buf.len() < units.len() + 1 { "C20/buffer-shorter-than-the-command-line" } else { "C20/buffer-differs-from-the-command-line" },
                        &format!("the NUL-terminated buffer built for CreateProcessW has {} units, the assembled command line {} (+1): what the child would parse is not the argument vector", buf.len(), units.len()),
                        J::obj().set("argc", J::i(v.len() as i64)).set("command_line_units", J::i(units.len() as i64)).set("buffer_units", J::i(buf.len() as i64)),
                    );
                } else {
                    // and what that buffer holds parses back to the vector
                    let text = String::from_utf16_lossy(&buf[..buf.len() - 1]);
                    if parse_msvcrt(&text) != v {
                        ctx.violation("C20/roundtrip/long", "a long command line does not parse back to the argument vector", J::obj().set("argc", J::i(v.len() as i64)));
                    }
                }
            }
            ctx.distinct(&format!("long|{}", target));
        });
    } else {
        ctx.inconclusive("to_nullterm could not be extracted from /repo/src/win32.rs", J::Null);
    }
    // NUL must be rejected, at every position class
    ctx.family("nul", 64, |ctx, rng, i| {
        let mut v: Vec<Vec<u8>> = vec![b"prog".to_vec()];
        let n = rng.range(1, 4);
        for _ in 0..n {
            let l = rng.range(0, 6) as usize;
            v.push((0..l).map(|_| *rng.pick(&[b'a', b' ', b'"', b'\\'])).collect());
        }
        let which = (i as usize) % v.len();
        let pos = match i % 3 {
            0 => 0,
            1 => v[which].len(),
            _ => v[which].len() / 2,
        };
        v[which].insert(pos, 0);
        use std::os::unix::ffi::OsStringExt;
        let os: Vec<OsString> = v.iter().map(|b| OsString::from_vec(b.clone())).collect();
        ctx.count("nul_vectors", 1);
        let verdict = std::panic::catch_unwind(|| win_popen::call_assemble_cmdline(os));
        // a rejected vector leaves nothing behind: the next command line assembled on this thread is its own
        let next: Vec<String> = vec!["prog".to_string(), "a b".to_string(), String::new(), format!("n{}", i)];
        check(ctx, &next, "after-a-rejected-vector");
        match verdict {
            Ok(Err(_)) => ctx.count("nul_rejected", 1),
            Ok(Ok(c)) => ctx.violation(
                "C20/nul-accepted",
                "an argument containing NUL was not rejected",
                J::obj().set("argv", J::Arr(v.iter().map(|b| J::bytes(b)).collect())).set("cmdline", J::s(&c.to_string_lossy())),
            ),
            Err(_) => ctx.violation("C20/nul-panic", "assemble_cmdline panicked on NUL", J::Null),
        }
    });
}
