// C19 — the printable command line is a faithful shell quoting of the command.
// Oracle: /bin/sh itself.  The rendered text is evaluated by sh and the resulting words
// are dumped NUL-separated by vchild; they must equal [program, args...].

use crate::json::J;
use crate::rng::Rng;
use crate::run::Ctx;
use std::path::Path;
use subprocess::{Exec, Pipeline};

fn sh_words(ctx: &Ctx, rendered: &str, out: &Path) -> Option<Vec<String>> {
    let _ = std::fs::remove_file(out);
    let script = format!("exec '{}' dumpargs '{}' {}", ctx.vchild.display(), out.display(), rendered);
    let st = std::process::Command::new("/bin/sh").arg("-c").arg(&script).stdin(std::process::Stdio::null()).stdout(std::process::Stdio::null()).stderr(std::process::Stdio::null()).status().ok()?;
    if !st.success() {
        return None;
    }
    let data = std::fs::read(out).ok()?;
    let mut v: Vec<String> = data.split(|&c| c == 0).map(|b| String::from_utf8_lossy(b).into_owned()).collect();
    v.pop(); // trailing empty piece after the last NUL
    Some(v)
}

fn strip<'a>(s: &'a str, pre: &str) -> Option<&'a str> {
    s.strip_prefix(pre).and_then(|r| r.strip_suffix(" }"))
}

fn check_exec(ctx: &mut Ctx, words: &[String], class: &str) {
    let e = Exec::cmd(&words[0]).args(&words[1..]);
    check_built(ctx, &e, words, class)
}

/// The command is put together step by step and looked at in between (logging what is about to be run, then adding
/// more arguments): every rendering shows the command as it is at that moment.
fn check_incremental(ctx: &mut Ctx, rng: &mut Rng, words: &[String]) {
    let mut e = Exec::cmd(&words[0]);
    let mut have = 1;
    let mut looks = 0;
    while have < words.len() {
        if rng.chance(500) {
            check_built(ctx, &e, &words[..have], "looked-at-while-being-built");
            looks += 1;
        }
        if rng.chance(200) {
            e = e.clone();
        }
        let take = (rng.range(1, 3) as usize).min(words.len() - have);
        if take == 1 && rng.chance(500) {
            e = e.arg(&words[have]);
        } else {
            e = e.args(&words[have..have + take]);
        }
        have += take;
    }
    if rng.chance(300) {
        e = e.clone();
    }
    ctx.count("renderings_of_a_command_still_being_built", looks);
    check_built(ctx, &e, words, "looked-at-while-being-built");
}

fn check_built(ctx: &mut Ctx, e: &Exec, words: &[String], class: &str) {
    // the same command with an environment of its own is shown with assignments in front of the very same words
    // (whatever the caller's own environment holds, also names and values that are not text)
    if words.len() % 4 == 1 {
        use std::os::unix::ffi::OsStringExt;
        std::env::set_var("VERIF_C19_ODD", std::ffi::OsString::from_vec(b"Andr\xe9 \xff".to_vec()));
        let plain = e.to_cmdline_lossy();
        let ee = e.clone().env("VERIF_C19_K", "v 1").env_remove("VERIF_C19_GONE");
        let shown = std::panic::catch_unwind(std::panic::AssertUnwindSafe(|| (ee.to_cmdline_lossy(), format!("{:?}", ee))));
        std::env::remove_var("VERIF_C19_ODD");
        ctx.count("commands_with_an_environment_of_their_own_shown", 1);
        match shown {
            Err(_) => {
                ctx.violation(&format!("C19/panic/{}", class), "showing a command that has an environment of its own panicked", J::obj().set("argv", J::arr_s(words)));
                return;
            }
            Ok((l, d)) => {
                if !l.ends_with(&plain) || !d.contains(&plain) {
                    ctx.violation(&format!("C19/environment-prefix/{}", class), "with an environment of its own the command is not shown as assignments followed by the same program and arguments", J::obj().set("argv", J::arr_s(words)).set("plain", J::s(&plain)).set("with_env", J::s(&l)));
                    return;
                }
            }
        }
    }
    let out = ctx.work.join("c19.out");
    let lossy = e.to_cmdline_lossy();
    let dbg = format!("{:?}", e);
    ctx.count("vectors_evaluated", 1);
    let w = |got: &Option<Vec<String>>| J::obj().set("argv", J::arr_s(words)).set("rendered", J::s(&lossy)).set("debug", J::s(&dbg)).set("sh_yields", match got { Some(g) => J::arr_s(g), None => J::s("<sh failed to evaluate it>") });
    let got = sh_words(ctx, &lossy, &out);
    if got.as_deref() != Some(words) {
        let kind = if words.iter().any(|s| s.is_empty()) { "empty-argument" } else { "quoting" };
        ctx.violation(&format!("C19/{}/{}", kind, class), "evaluating the printed command line with sh does not reproduce the program and argument list", w(&got));
        return;
    }
    match strip(&dbg, "Exec { ") {
        Some(inner) if inner == lossy => {}
        Some(inner) => {
            let got2 = sh_words(ctx, inner, &out);
            if got2.as_deref() != Some(words) {
                ctx.violation(&format!("C19/debug/{}", class), "the Debug rendering does not evaluate back to the command", w(&got2));
            }
        }
        None => ctx.violation(&format!("C19/debug-format/{}", class), "Debug output is not of the form `Exec { <cmdline> }`", w(&None)),
    }
    // the alternate Debug form ({:#?}, used by dbg! and by derived Debug of enclosing structs) is Debug output too
    let alt = format!("{:#?}", e);
    if alt != dbg {
        match strip(&alt, "Exec { ") {
            Some(inner) => {
                let got3 = sh_words(ctx, inner, &out);
                if got3.as_deref() != Some(words) {
                    ctx.violation(&format!("C19/alternate-debug/{}", class), "the alternate Debug rendering ({:#?}) does not evaluate back to the command", w(&got3));
                }
            }
            None => ctx.violation(&format!("C19/alternate-debug-format/{}", class), "alternate Debug output is not of the form `Exec { <cmdline> }`", w(&None)),
        }
    }
}

/// Evaluate the printed command line at *command position* (`sh -c "<rendered>"`): the program is a real file on PATH
/// that dumps its complete argv.  Catches renderings that sh reads as something other than a simple command
/// (e.g. an unquoted NAME=value program word is an assignment).
fn check_command_position(ctx: &mut Ctx, rng: &mut Rng) {
    let dir = ctx.scratch("c19c");
    let safe = ['a', 'Z', '9', '_', '-', '.', ',', '=', '+', '@', '%', ':', '~', '#', '!', '^', '{', '}', '[', ']', ' ', '$', '&', ';', '\'', '"', '*', '?', '(', ')', '<', '>', '|', '\\', 'é'];
    let n = rng.range(1, 12);
    let mut prog: String = (0..n).map(|_| *rng.pick(&safe)).collect();
    if rng.chance(300) {
        prog = format!("{}={}", *rng.pick(&["FOO", "a", "PATH", "x1"]), prog);
    }
    // never a shell builtin (`:`, `.`, `cd`, `echo` ... are not looked up on PATH at all, however they are quoted: a
    // platform fact) ...
    prog = format!("p{}", prog);
    // ... but a program may well be called like one of the shell's reserved words: those are ordinary command names
    // once quoted, and it is the rendering's job to see to that
    if rng.chance(120) {
        prog = rng.pick(&["if", "then", "else", "elif", "fi", "do", "done", "case", "esac", "while", "until", "for", "in"]).to_string();
        ctx.count("programs_named_like_a_reserved_word", 1);
    }
    let link = dir.join(&prog);
    if std::fs::hard_link(&ctx.vchild, &link).is_err() && std::fs::copy(&ctx.vchild, &link).is_err() {
        return;
    }
    let args: Vec<String> = (0..rng.below(5)).map(|_| rand_word(rng, 12)).collect();
    let e = Exec::cmd(&prog).args(&args);
    let out = dir.join("argv.out");
    let mut words = vec![prog.clone()];
    words.extend(args.iter().cloned());
    for (which, rendered) in [("to_cmdline_lossy", e.to_cmdline_lossy()), ("debug", strip(&format!("{:?}", e), "Exec { ").unwrap_or("").to_string()), ("alternate-debug", strip(&format!("{:#?}", e), "Exec { ").unwrap_or("").to_string())] {
        let _ = std::fs::remove_file(&out);
        let st = std::process::Command::new("/bin/sh")
            .arg("-c")
            .arg(&rendered)
            .env("PATH", &dir)
            .env("VCHILD_DUMP", &out)
            .stdin(std::process::Stdio::null())
            .stdout(std::process::Stdio::null())
            .stderr(std::process::Stdio::null())
            .status();
        ctx.count("command_position_evaluations", 1);
        let data = std::fs::read(&out).unwrap_or_default();
        let mut got: Vec<String> = data.split(|&c| c == 0).map(|b| String::from_utf8_lossy(b).into_owned()).collect();
        got.pop();
        if got != words {
            ctx.violation(
                &format!("C19/command-position/{}", which),
                "running the printed command line with sh does not start the original program with the original arguments",
                J::obj().set("argv", J::arr_s(&words)).set("rendered", J::s(&rendered)).set("sh_started", J::arr_s(&got)).set("sh_status", J::s(&format!("{:?}", st.map(|s| s.code())))),
            );
            return;
        }
    }
}

fn check_pipeline(ctx: &mut Ctx, rng: &mut Rng, stages: &[Vec<String>]) {
    // each stage is `vchild dumpargs <file_i> args...`: the real sh pipeline tells us what every stage received
    let dir = ctx.scratch("c19p");
    let mut files = vec![];
    let mut execs = vec![];
    for (i, args) in stages.iter().enumerate() {
        let f = dir.join(format!("stage{}.out", i));
        files.push(f.clone());
        execs.push(Exec::cmd(&ctx.vchild).arg("dumpargs").arg(&f).args(args));
    }
    // compose in a random shape
    let pl: Pipeline = if rng.chance(500) || execs.len() < 3 {
        Pipeline::from_exec_iter(execs)
    } else {
        let mut it = execs.into_iter();
        let mut p = it.next().unwrap() | it.next().unwrap();
        for e in it {
            p = p | e;
        }
        p
    };
    let dbg = if rng.chance(500) { format!("{:?}", pl) } else { format!("{:#?}", pl) };
    ctx.count("pipelines_evaluated", 1);
    let inner = match strip(dbg.trim_end(), "Pipeline { ") {
        Some(s) => s.to_string(),
        None => {
            ctx.violation("C19/pipeline-debug-format", "Debug output is not of the form `Pipeline { a | b }`", J::s(&dbg));
            return;
        }
    };
    let st = std::process::Command::new("/bin/sh").arg("-c").arg(&inner).stdin(std::process::Stdio::null()).stdout(std::process::Stdio::null()).stderr(std::process::Stdio::null()).status();
    let w = J::obj().set("stages", J::Arr(stages.iter().map(|s| J::arr_s(s)).collect())).set("debug", J::s(&dbg));
    if st.map(|s| !s.success()).unwrap_or(true) {
        ctx.violation("C19/pipeline-not-evaluable", "sh could not run the printed pipeline", w);
        return;
    }
    let mut last_pos = 0;
    for (i, f) in files.iter().enumerate() {
        let data = std::fs::read(f).unwrap_or_default();
        let mut v: Vec<String> = data.split(|&c| c == 0).map(|b| String::from_utf8_lossy(b).into_owned()).collect();
        v.pop();
        if v != stages[i] {
            ctx.violation("C19/pipeline-stage-args", &format!("stage {} of the printed pipeline received different arguments", i), w.clone());
            return;
        }
        // order of appearance, joined by `|`
        match inner[last_pos..].find(&format!("stage{}.out", i)) {
            Some(p) => last_pos += p,
            None => {
                ctx.violation("C19/pipeline-order", "stages do not appear in order in the printed pipeline", w.clone());
                return;
            }
        }
    }
    if inner.matches(" | ").count() < stages.len() - 1 {
        ctx.violation("C19/pipeline-join", "stages are not joined by `|`", w);
    }
}

/// Pipelines of programs found through PATH, some of them named like reserved words of the shell: `|` starts a new
/// command, so every program name of a printed pipeline stands at command position.
fn check_pipeline_command_positions(ctx: &mut Ctx, rng: &mut Rng) {
    let dir = ctx.scratch("c19q");
    let dumps = ctx.scratch("c19qd");
    let n = rng.range(2, 5) as usize;
    let mut pool: Vec<String> = ["if", "then", "else", "elif", "fi", "do", "done", "case", "esac", "while", "until", "for", "in"].iter().map(|s| s.to_string()).collect();
    let odd = ['a', 'Z', '9', '_', '-', '.', ',', '+', '@', '%', ':', '~', '#', '!', '^', '{', '}', '[', ']', ' ', '$', '&', ';', '\'', '"', '*', '?', '(', ')', '<', '>', '|', '\\', 'é'];
    let mut progs: Vec<String> = vec![];
    let mut reserved_later = false;
    for j in 0..n {
        let p = if rng.chance(500) && !pool.is_empty() {
            reserved_later |= j > 0;
            pool.swap_remove(rng.below(pool.len() as u64) as usize)
        } else {
            format!("p{}{}", j, (0..rng.range(0, 6)).map(|_| *rng.pick(&odd)).collect::<String>())
        };
        let link = dir.join(&p);
        if std::fs::hard_link(&ctx.vchild, &link).is_err() && std::fs::copy(&ctx.vchild, &link).is_err() {
            return;
        }
        progs.push(p);
    }
    let args: Vec<Vec<String>> = (0..n).map(|_| (0..rng.below(3)).map(|_| rand_word(rng, 8)).collect()).collect();
    let mut execs: Vec<Exec> = progs.iter().zip(args.iter()).map(|(p, a)| Exec::cmd(p).args(a)).collect();
    let pl: Pipeline = if rng.chance(500) || n < 3 {
        Pipeline::from_exec_iter(execs)
    } else {
        let rest = execs.split_off(2);
        let mut it = execs.into_iter();
        let mut p = it.next().unwrap() | it.next().unwrap();
        for e in rest {
            p = p | e;
        }
        p
    };
    let dbg = if rng.chance(500) { format!("{:?}", pl) } else { format!("{:#?}", pl) };
    ctx.count("pipelines_evaluated_at_command_positions", 1);
    if reserved_later {
        ctx.count("pipelines_with_a_reserved_word_as_a_later_program", 1);
    }
    let inner = match strip(dbg.trim_end(), "Pipeline { ") {
        Some(s) => s.to_string(),
        None => {
            ctx.violation("C19/pipeline-debug-format", "Debug output is not of the form `Pipeline { a | b }`", J::s(&dbg));
            return;
        }
    };
    let st = std::process::Command::new("/bin/sh")
        .arg("-c")
        .arg(&inner)
        .env("PATH", &dir)
        .env("VCHILD_DUMP_DIR", &dumps)
        .stdin(std::process::Stdio::null())
        .stdout(std::process::Stdio::null())
        .stderr(std::process::Stdio::null())
        .status();
    for (j, p) in progs.iter().enumerate() {
        let data = std::fs::read(dumps.join(format!("{}.argv", p))).unwrap_or_default();
        let mut got: Vec<String> = data.split(|&c| c == 0).map(|b| String::from_utf8_lossy(b).into_owned()).collect();
        got.pop();
        let mut want = vec![p.clone()];
        want.extend(args[j].iter().cloned());
        if got != want {
            ctx.violation(
                &format!("C19/pipeline-command-position/{}", if j == 0 { "first" } else { "later" }),
                &format!("running the printed pipeline with sh does not start program {} with its arguments", j),
                J::obj().set("programs", J::arr_s(&progs)).set("debug", J::s(&dbg)).set("sh_started", J::arr_s(&got)).set("sh_status", J::s(&format!("{:?}", st.as_ref().map(|s| s.code())))),
            );
            return;
        }
    }
}

fn rand_word(rng: &mut Rng, maxlen: u64) -> String {
    let len = rng.below(maxlen + 1);
    let special = ['\'', '"', '\\', '$', '`', '*', '?', '[', ']', '{', '}', '(', ')', '<', '>', '|', '&', ';', '!', '~', '#', ' ', '\t', '\n', '=', '%', '-', '^', '\r', '\x7f', '\x01'];
    let letters = ['a', 'Z', '0', '_', '.', ',', '/', 'é', 'ß', '𝄞', '中'];
    (0..len).map(|_| if rng.chance(500) { *rng.pick(&special) } else { *rng.pick(&letters) }).collect()
}

pub fn run(ctx: &mut Ctx) {
    // every ASCII character 1..127 as a one-character argument, and embedded in a word
    ctx.family("ascii", 127, |ctx, _rng, i| {
        let c = (i as u8 + 1) as char;
        ctx.max("ascii_characters_covered", 127);
        ctx.distinct(&format!("ascii{}", i));
        check_exec(ctx, &["prog".to_string(), c.to_string()], "ascii");
        check_exec(ctx, &["prog".to_string(), format!("a{}b", c), format!("{}{}", c, c)], "ascii");
        check_exec(ctx, &[format!("p{}", c), "x".to_string()], "ascii-in-program");
    });
    // the empty argument at every position of short vectors
    ctx.family("empty", 32, |ctx, _rng, i| {
        let n = 1 + (i % 5) as usize;
        let mut v = vec![if i % 4 == 3 { String::new() } else { "prog".to_string() }];
        for j in 0..n {
            v.push(if (i >> j) & 1 == 1 || j as u64 == i % n as u64 { String::new() } else { format!("a{}", j) });
        }
        ctx.distinct(&format!("empty{:?}", v));
        ctx.count("empty_argument_vectors", 1);
        check_exec(ctx, &v, "empty-position");
    });
    let n = ctx.n(3000, 60_000);
    ctx.family("random", n, |ctx, rng, i| {
        let nargs = rng.below(21);
        let mut v = vec![if rng.chance(300) { rand_word(rng, 12) } else { "prog".to_string() }];
        // (an empty program name cannot be run, but it is a word of the command line like any other)
        for _ in 0..nargs {
            let w = match rng.below(8) {
                0 => String::new(),
                1 => format!("-{}", rand_word(rng, 5)),
                _ => rand_word(rng, 64),
            };
            v.push(w);
        }
        ctx.distinct(&v.join("\u{1}"));
        if i < 3 {
            ctx.sample(J::arr_s(&v));
        }
        check_exec(ctx, &v, "random");
    });
    let ni = ctx.n(600, 20_000);
    ctx.family("incremental", ni, |ctx, rng, _i| {
        let nargs = rng.range(1, 10);
        let mut v = vec!["prog".to_string()];
        for _ in 0..nargs {
            v.push(if rng.chance(150) { String::new() } else { rand_word(rng, 12) });
        }
        ctx.distinct(&format!("inc{}", v.join("\u{1}")));
        check_incremental(ctx, rng, &v);
    });
    let nc = ctx.n(600, 20_000);
    ctx.family("command-position", nc, |ctx, rng, _i| {
        check_command_position(ctx, rng);
        crate::run::end_case(); // removes the scratch directory
    });
    let nq = ctx.n(300, 6000);
    ctx.family("pipeline-command-positions", nq, |ctx, rng, _i| {
        check_pipeline_command_positions(ctx, rng);
        crate::run::end_case();
    });
    let np = ctx.n(400, 8000);
    ctx.family("pipelines", np, |ctx, rng, _i| {
        let n = rng.range(2, 5) as usize;
        let stages: Vec<Vec<String>> = (0..n).map(|_| (0..rng.below(4)).map(|_| rand_word(rng, 16)).collect()).collect();
        ctx.distinct(&format!("pl{:?}", stages));
        check_pipeline(ctx, rng, &stages);
        crate::run::end_case();
    });
}
