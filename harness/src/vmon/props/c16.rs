// C16 — Exec builder calls compose like edits on a plain command description.
// Random sequences of builder calls are applied both to a real Exec and to a reference
// model; the command finally run reports itself (vchild) and must match the model.
// Refusals (panics) are observed with catch_unwind and compared with the model's rule.

use crate::ilog;
use crate::json::{show_bytes, J};
use crate::rng::Rng;
use crate::run::{self, Ctx};
use crate::spawn;
use std::collections::BTreeMap;
use std::ffi::OsString;
use std::io::{Read, Write};
use std::os::unix::ffi::{OsStrExt, OsStringExt};
use std::panic::{catch_unwind, AssertUnwindSafe};
use std::path::PathBuf;
use subprocess::{Exec, NullFile, Redirection};

fn os(b: &[u8]) -> OsString {
    OsString::from_vec(b.to_vec())
}

#[derive(Clone, Debug, PartialEq)]
enum S {
    // model of one stream slot
    Unset,
    Pipe,
    File(String), // tag of the file
    Merge,
    Data(Vec<u8>),
}

#[derive(Clone, Debug)]
struct Model {
    args: Vec<Vec<u8>>,
    env: Option<Vec<(Vec<u8>, Vec<u8>)>>,
    cwd: Option<PathBuf>,
    sin: S,
    sout: S,
    serr: S,
    detached: bool,
}

#[derive(Clone, Debug)]
enum Call {
    Arg(Vec<u8>),
    Args(Vec<Vec<u8>>),
    Env(Vec<u8>, Vec<u8>),
    EnvExtend(Vec<(Vec<u8>, Vec<u8>)>),
    EnvRemove(Vec<u8>),
    EnvClear,
    Cwd(PathBuf),
    Stdin(S),
    Stdout(S),
    Stderr(S),
    Detached,
    CloneSwitch, // clone; continue editing the clone, keep the original for comparison
}

fn short(c: &Call) -> String {
    match c {
        Call::Arg(a) => format!("arg({})", show_bytes(a, 16)),
        Call::Args(v) => format!("args[{}]", v.len()),
        Call::Env(k, v) => format!("env({}={})", show_bytes(k, 12), show_bytes(v, 12)),
        Call::EnvExtend(v) => format!("env_extend[{}]", v.len()),
        Call::EnvRemove(k) => format!("env_remove({})", show_bytes(k, 12)),
        Call::EnvClear => "env_clear".into(),
        Call::Cwd(p) => format!("cwd({})", p.display()),
        Call::Stdin(s) => format!("stdin({})", sname(s)),
        Call::Stdout(s) => format!("stdout({})", sname(s)),
        Call::Stderr(s) => format!("stderr({})", sname(s)),
        Call::Detached => "detached".into(),
        Call::CloneSwitch => "clone".into(),
    }
}

fn sname(s: &S) -> String {
    match s {
        S::Unset => "None".into(),
        S::Pipe => "Pipe".into(),
        S::File(t) => format!("File:{}", t),
        S::Merge => "Merge".into(),
        S::Data(d) => format!("data[{}]", d.len()),
    }
}

fn kind_name(c: &Call) -> &'static str {
    match c {
        Call::Arg(_) => "arg", Call::Args(_) => "args", Call::Env(..) => "env", Call::EnvExtend(_) => "env_extend", Call::EnvRemove(_) => "env_remove",
        Call::EnvClear => "env_clear", Call::Cwd(_) => "cwd", Call::Stdin(_) => "stdin", Call::Stdout(_) => "stdout", Call::Stderr(_) => "stderr",
        Call::Detached => "detached", Call::CloneSwitch => "clone",
    }
}

fn parent_env() -> Vec<(Vec<u8>, Vec<u8>)> {
    std::env::vars_os().map(|(k, v)| (k.as_bytes().to_vec(), v.as_bytes().to_vec())).collect()
}

impl Model {
    /// Apply a call; returns false if the model says the call must be refused (panic).
    fn apply(&mut self, c: &Call) -> bool {
        let ensure = |m: &mut Model| {
            if m.env.is_none() {
                m.env = Some(parent_env());
            }
        };
        match c {
            Call::Arg(a) => self.args.push(a.clone()),
            Call::Args(v) => self.args.extend(v.iter().cloned()),
            Call::Env(k, v) => {
                ensure(self);
                self.env.as_mut().unwrap().push((k.clone(), v.clone()));
            }
            Call::EnvExtend(l) => {
                ensure(self);
                self.env.as_mut().unwrap().extend(l.iter().cloned());
            }
            Call::EnvRemove(k) => {
                ensure(self);
                self.env.as_mut().unwrap().retain(|(kk, _)| kk != k);
            }
            Call::EnvClear => self.env = Some(vec![]),
            Call::Cwd(p) => self.cwd = Some(p.clone()),
            Call::Detached => self.detached = true,
            Call::CloneSwitch => {}
            Call::Stdin(new) => {
                // a stream can be configured only once; re-stating Pipe on Pipe is not a different setting; Merge is invalid for stdin
                if *new == S::Merge {
                    return false;
                }
                match (&self.sin, new) {
                    (S::Unset, n) => self.sin = n.clone(),
                    (S::Pipe, S::Pipe) => {}
                    // input data already implies a pipe: re-stating Pipe changes nothing and drops nothing
                    (S::Data(_), S::Pipe) => {}
                    _ => return false,
                }
            }
            Call::Stdout(new) => match (&self.sout, new) {
                (S::Unset, n) => self.sout = n.clone(),
                (S::Pipe, S::Pipe) => {}
                _ => return false,
            },
            Call::Stderr(new) => match (&self.serr, new) {
                (S::Unset, n) => self.serr = n.clone(),
                (S::Pipe, S::Pipe) => {}
                _ => return false,
            },
        }
        true
    }
    fn final_env(&self) -> BTreeMap<Vec<u8>, Vec<u8>> {
        let list = match &self.env {
            None => parent_env(),
            Some(l) => l.clone(),
        };
        let mut m = BTreeMap::new();
        for (k, v) in list {
            m.insert(k, v);
        }
        m
    }
}

fn apply_real(e: Exec, c: &Call, dir: &std::path::Path) -> Exec {
    let open = |tag: &str, write: bool| {
        let p = dir.join(tag);
        if write {
            std::fs::OpenOptions::new().create(true).append(true).open(p).unwrap()
        } else {
            if !p.exists() {
                std::fs::write(&p, b"file-input-0123456789").unwrap();
            }
            std::fs::File::open(p).unwrap()
        }
    };
    match c {
        Call::Arg(a) => e.arg(os(a)),
        Call::Args(v) => e.args(&v.iter().map(|a| os(a)).collect::<Vec<_>>()),
        Call::Env(k, v) => e.env(os(k), os(v)),
        Call::EnvExtend(l) => e.env_extend(&l.iter().map(|(k, v)| (os(k), os(v))).collect::<Vec<_>>()),
        Call::EnvRemove(k) => e.env_remove(os(k)),
        Call::EnvClear => e.env_clear(),
        Call::Cwd(p) => e.cwd(p),
        Call::Detached => e.detached(),
        Call::CloneSwitch => e.clone(),
        Call::Stdin(s) => match s {
            S::Unset => e.stdin(Redirection::None),
            S::Pipe => e.stdin(Redirection::Pipe),
            S::Merge => e.stdin(Redirection::Merge),
            S::File(t) => {
                if t == "null" { e.stdin(NullFile) } else { e.stdin(open(t, false)) }
            }
            S::Data(d) => e.stdin(d.clone()),
        },
        Call::Stdout(s) => match s {
            S::Unset => e.stdout(Redirection::None),
            S::Pipe => e.stdout(Redirection::Pipe),
            S::Merge => e.stdout(Redirection::Merge),
            S::File(t) => {
                if t == "null" { e.stdout(NullFile) } else { e.stdout(open(t, true)) }
            }
            S::Data(_) => e,
        },
        Call::Stderr(s) => match s {
            S::Unset => e.stderr(Redirection::None),
            S::Pipe => e.stderr(Redirection::Pipe),
            S::Merge => e.stderr(Redirection::Merge),
            S::File(t) => {
                if t == "null" { e.stderr(NullFile) } else { e.stderr(open(t, true)) }
            }
            S::Data(_) => e,
        },
    }
}

fn gen_val(rng: &mut Rng, max: u64) -> Vec<u8> {
    // (a handful of values recur, so that the very same name=value pair is set, overridden and set again)
    if rng.chance(300) {
        return rng.pick(&[&b"1"[..], b"2", b"", b"on", b"a b"]).to_vec();
    }
    let n = rng.below(max + 1) as usize;
    match rng.below(4) {
        0 => rng.bytes_nonul(n),
        1 => (0..n).map(|_| *rng.pick(&[b' ', b'"', b'\'', b'$', b'=', b'\n', b'a'])).collect(),
        _ => (0..n).map(|_| rng.range(0x21, 0x7e) as u8).collect(),
    }
}

fn gen_key(rng: &mut Rng, pool: &mut Vec<Vec<u8>>) -> Vec<u8> {
    if !pool.is_empty() && rng.chance(500) {
        return rng.pick(pool).clone();
    }
    // (names that differ only in letter case are different variables)
    let inherited = ["PATH", "HOME", "LANG", "USER", "PWD", "Path", "path", "home", "http_proxy", "HTTP_PROXY"];
    let k: Vec<u8> = if rng.chance(250) {
        rng.pick(&inherited).as_bytes().to_vec()
    } else {
        let n = rng.range(1, 8) as usize;
        (0..n).map(|_| *rng.pick(&[b'A', b'a', b'b', b'B', b'_', b'9', b' ', b'-', 0xc3, 0xa9])).collect()
    };
    pool.push(k.clone());
    k
}

fn gen_stream(rng: &mut Rng, is_stdin: bool) -> S {
    match rng.below(if is_stdin { 7 } else { 6 }) {
        0 => S::Unset,
        1 | 2 => S::Pipe,
        3 => S::File(format!("f{}", rng.below(3))),
        4 => S::File("null".into()),
        5 => S::Merge,
        _ => S::Data(gen_val(rng, 40)),
    }
}

fn gen_calls(rng: &mut Rng, dir: &std::path::Path) -> Vec<Call> {
    let n = rng.range(0, 25);
    let mut pool = vec![];
    let mut v = vec![];
    for _ in 0..n {
        let c = match rng.below(16) {
            0 | 1 | 2 => Call::Arg(gen_val(rng, 30)),
            3 => Call::Args((0..rng.below(5)).map(|_| gen_val(rng, 10)).collect()),
            4 | 5 => Call::Env(gen_key(rng, &mut pool), gen_val(rng, 20)),
            6 => Call::EnvExtend((0..rng.below(4)).map(|_| (gen_key(rng, &mut pool), gen_val(rng, 10))).collect()),
            7 | 8 => Call::EnvRemove(gen_key(rng, &mut pool)),
            9 => Call::EnvClear,
            10 => {
                if rng.chance(400) {
                    // relative: meant from the caller's own working directory, whatever was set before
                    let name = format!("c16-rel-{}", rng.below(3));
                    let _ = std::fs::create_dir_all(std::env::current_dir().unwrap().join(&name));
                    Call::Cwd(PathBuf::from(if rng.chance(300) { ".".to_string() } else { name }))
                } else {
                    let d = dir.join(format!("wd{}", rng.below(3)));
                    let _ = std::fs::create_dir_all(&d);
                    Call::Cwd(d)
                }
            }
            11 => Call::Stdin(gen_stream(rng, true)),
            12 => Call::Stdout(gen_stream(rng, false)),
            13 => Call::Stderr(gen_stream(rng, false)),
            14 => Call::Detached,
            _ => Call::CloneSwitch,
        };
        v.push(c);
    }
    // once in a while a value carries a NUL byte: such a command cannot be expressed to the operating system and must be
    // refused when it is run - never run in a shortened form
    if rng.chance(60) && !v.is_empty() {
        let at = rng.below(v.len() as u64) as usize;
        let nul = |mut b: Vec<u8>, rng: &mut Rng| {
            let pos = if b.is_empty() { 0 } else { rng.below(b.len() as u64 + 1) as usize };
            b.insert(pos, 0);
            b
        };
        v[at] = match v[at].clone() {
            Call::Arg(a) => Call::Arg(nul(a, rng)),
            Call::Env(k, val) => Call::Env(k, nul(val, rng)),
            other => other,
        };
    }
    v
}

const TERMS: [&str; 7] = ["popen", "join", "capture", "communicate", "stream_stdout", "stream_stderr", "stream_stdin"];

/// Run `e` with terminator `term`; Err(refused/failed text).  For "popen" the value says whether the finished child
/// was still in the process table (unreaped) after the Popen had been dropped.
fn terminate(e: Exec, term: &str) -> Result<Option<bool>, String> {
    match term {
        "popen" => {
            let mut p = e.popen().map_err(|e| format!("error: {}", e))?;
            drop(p.stdin.take());
            let pid = p.pid().map(|x| x as i32);
            // let the child finish first (it is not reaped by looking at it); then drop the handle: an attached command
            // is reaped by the drop, a detached one is left alone
            let finished = pid.map(|pid| ilog::quiet(|| spawn::wait_dead(pid, 5000)) == Some('Z')).unwrap_or(false);
            drop(p);
            let after = pid.and_then(|pid| ilog::quiet(|| crate::inspect::proc_state(pid)));
            Ok(if finished { Some(after == Some('Z')) } else { None })
        }
        "join" => e.join().map(|_| None).map_err(|e| format!("error: {}", e)),
        "capture" => e.capture().map(|_| None).map_err(|e| format!("error: {}", e)),
        "communicate" => {
            let mut c = e.communicate().map_err(|e| format!("error: {}", e))?;
            let _ = c.read();
            Ok(None)
        }
        "stream_stdout" => {
            let mut r = e.stream_stdout().map_err(|e| format!("error: {}", e))?;
            let mut b = vec![];
            let _ = r.read_to_end(&mut b);
            Ok(None)
        }
        "stream_stderr" => {
            let mut r = e.stream_stderr().map_err(|e| format!("error: {}", e))?;
            let mut b = vec![];
            let _ = r.read_to_end(&mut b);
            Ok(None)
        }
        _ => {
            let mut w = e.stream_stdin().map_err(|e| format!("error: {}", e))?;
            let _ = w.write(b"x");
            Ok(None)
        }
    }
}

fn seq_case(ctx: &mut Ctx, rng: &mut Rng, i: u64) {
    run::begin_case();
    let dir = ctx.scratch("c16");
    // the caller's own environment is not constant over the life of the process: "inherited" means as it is now
    std::env::set_var("VERIF_C16_EPOCH", i.to_string());
    if i % 3 == 0 {
        std::env::remove_var("VERIF_C16_SOMETIMES");
    } else {
        std::env::set_var("VERIF_C16_SOMETIMES", format!("v{}", i % 7));
    }
    let calls = gen_calls(rng, &dir);
    let term = TERMS[rng.below(TERMS.len() as u64) as usize];
    // the child reports itself and (flag i) what it can read from stdin
    let exe = spawn::report_exe(ctx, &dir, "b", "ix");
    let mut model = Model { args: vec![], env: None, cwd: None, sin: S::Unset, sout: S::Unset, serr: S::Unset, detached: false };
    let mut real: Option<Exec> = Some(Exec::cmd(&exe));
    let mut originals: Vec<(Exec, Model)> = vec![];
    let mut trace: Vec<String> = vec![];
    let mut prev_kind = "start";
    let wit = |trace: &Vec<String>, extra: J| J::obj().set("calls", J::arr_s(trace)).set("terminator", J::s(term)).set("detail", extra);
    for c in &calls {
        ctx.distinct(&format!("{}>{}", prev_kind, kind_name(c)));
        prev_kind = kind_name(c);
        trace.push(short(c));
        let mut m2 = model.clone();
        let accept = m2.apply(c);
        let e = real.take().unwrap();
        if let Call::CloneSwitch = c {
            let cl = catch_unwind(AssertUnwindSafe(|| e.clone()));
            match cl {
                Ok(cl) => {
                    originals.push((e, model.clone()));
                    real = Some(cl);
                    ctx.count("clones", 1);
                }
                Err(_) => {
                    ctx.violation("C16/clone-panics", "Exec::clone panicked", wit(&trace, J::Null));
                    run::end_case();
                    return;
                }
            }
            continue;
        }
        let r = ilog::quiet(|| catch_unwind(AssertUnwindSafe(|| apply_real(e, c, &dir))));
        match (r, accept) {
            (Ok(e2), true) => {
                real = Some(e2);
                model = m2;
            }
            (Err(_), false) => {
                ctx.count("refusals_observed", 1);
                trace.push("  -> refused (as the model requires)".into());
                run::end_case();
                return;
            }
            (Ok(_), false) => {
                ctx.violation(
                    &format!("C16/conflict-accepted/{}", kind_name(c)),
                    "a second, different setting of a stream (or an invalid one) was accepted silently",
                    wit(&trace, J::Null),
                );
                run::end_case();
                return;
            }
            (Err(_), true) => {
                ctx.violation(&format!("C16/valid-call-refused/{}", kind_name(c)), "a valid builder call panicked", wit(&trace, J::Null));
                run::end_case();
                return;
            }
        }
    }
    ctx.count("sequences", 1);
    // ---- terminator: input data can only be delivered by capture/communicate
    let has_data = matches!(model.sin, S::Data(_));
    let must_refuse = has_data && !matches!(term, "capture" | "communicate");
    // Merge on both outputs / unusable combinations are launch errors, not panics: keep the generator away from them
    let both_merge = model.sout == S::Merge && model.serr == S::Merge;
    // terminators that set a stream themselves conflict with an earlier different setting
    let conflict = match term {
        "stream_stdout" => !matches!(model.sout, S::Unset | S::Pipe),
        "stream_stderr" => !matches!(model.serr, S::Unset | S::Pipe),
        "stream_stdin" => !matches!(model.sin, S::Unset | S::Pipe | S::Data(_)),
        _ => false,
    };
    // a piped stdin without data cannot be driven by capture/communicate (documented panic); piped outputs nobody reads could block: skip those terminators
    // (likewise a caller who pipes stdin and then joins / only reads output has blocked himself: the child reads its stdin)
    let undriven = model.sin == S::Pipe && !matches!(term, "popen" | "stream_stdin");
    if both_merge || undriven {
        ctx.count("sequences_not_run(terminator not applicable)", 1);
        run::end_case();
        return;
    }
    let e = real.take().unwrap();
    let rep_path = spawn::report_path(&exe);
    let _ = std::fs::remove_file(&rep_path);
    // between building the command and running it the caller's own environment moves on: a name that was removed by
    // env_remove (and not set again) appears in it.  Removed is removed: the child does not get it.
    let mut late: Vec<OsString> = vec![];
    {
        let mut removed: Vec<Vec<u8>> = vec![];
        for c in &calls {
            match c {
                Call::EnvRemove(k) => removed.push(k.clone()),
                Call::Env(k, _) => removed.retain(|r| r != k),
                Call::EnvExtend(l) => removed.retain(|r| !l.iter().any(|(k, _)| k == r)),
                // after env_clear everything is absent anyway
                _ => {}
            }
        }
        for k in removed {
            if !k.is_empty() && !k.contains(&b'=') && !k.contains(&0) && std::env::var_os(os(&k)).is_none() {
                std::env::set_var(os(&k), "appeared-later-in-the-parent");
                late.push(os(&k));
            }
        }
        if !late.is_empty() {
            ctx.count("commands_run_after_a_removed_name_appeared_in_the_parent", 1);
        }
    }
    let m = run::monitored(|| terminate(e, term));
    for k in &late {
        std::env::remove_var(k);
    }
    trace.push(format!("{}()", term));
    let refused = m.panic.is_some();
    if must_refuse || conflict {
        if refused {
            ctx.count("refusals_observed", 1);
        } else {
            ctx.violation(
                &format!("C16/undeliverable-accepted/{}", term),
                if must_refuse { "input data was given to a terminator that cannot deliver it, and it was silently dropped" } else { "a terminator silently overrode an earlier stream setting" },
                wit(&trace, J::s(&format!("{:?}", m.result))),
            );
        }
        run::end_case();
        return;
    }
    if refused {
        ctx.violation(&format!("C16/valid-terminator-refused/{}", term), "terminator panicked on a valid command", wit(&trace, J::s(m.panic.as_deref().unwrap_or(""))));
        run::end_case();
        return;
    }
    if let Some(c) = &m.cert {
        ctx.inconclusive("terminator blocked (not a C16 matter)", run::cert_json(c));
        run::end_case();
        return;
    }
    let has_nul = model.args.iter().any(|a| a.contains(&0)) || model.final_env().iter().any(|(k, v)| k.contains(&0) || v.contains(&0));
    if has_nul {
        ctx.count("commands_with_a_NUL_byte_in_a_value", 1);
        let ran = spawn::get_report(&exe, 300).is_some();
        if !matches!(m.result, Some(Err(_))) || ran {
            ctx.violation(&format!("C16/nul-not-refused/{}", term), "a value of the command contains a NUL byte; instead of being refused the command was run (in a shortened form)", wit(&trace, J::s(&format!("{:?} ran={}", m.result, ran))));
        }
        run::end_case();
        return;
    }
    if let Some(Err(e)) = &m.result {
        ctx.violation(&format!("C16/launch-failed/{}", term), &format!("the built command failed to run: {}", e), wit(&trace, J::Null));
        run::end_case();
        return;
    }
    check_child(ctx, &model, &exe, &trace, term, "edited");
    // detached() is part of the description too (and must survive clone): the handle of a detached command does not reap
    if let Some(Ok(Some(left_unreaped))) = &m.result {
        ctx.count("detached_settings_compared", 1);
        if *left_unreaped != model.detached {
            ctx.violation(
                &format!("C16/detached/{}", if model.detached { "lost" } else { "invented" }),
                if model.detached { "detached() was called, yet dropping the handle waited for and reaped the command" } else { "detached() was never called, yet dropping the handle did not reap the finished command" },
                wit(&trace, J::Null),
            );
        }
    }
    // ---- clones kept aside must still describe what they described when cloned
    for (k, (orig, om)) in originals.into_iter().enumerate() {
        if matches!(om.sin, S::Data(_)) || om.sin == S::Pipe || (om.sout == S::Merge && om.serr == S::Merge) || om.sout == S::Pipe || om.serr == S::Pipe {
            continue;
        }
        let _ = std::fs::remove_file(&rep_path);
        let m = run::monitored(|| orig.join());
        if m.panic.is_none() && matches!(m.result, Some(Ok(_))) {
            ctx.count("clone_originals_compared", 1);
            check_child(ctx, &om, &exe, &trace, "join", &format!("original-of-clone-{}", k));
        }
    }
    if i < 2 {
        ctx.sample(J::obj().set("calls", J::arr_s(&trace)));
    }
    run::end_case();
}

fn check_child(ctx: &mut Ctx, model: &Model, exe: &std::path::Path, trace: &[String], term: &str, which: &str) {
    let rep = match spawn::get_report(exe, 4000) {
        Some(r) => r,
        None => {
            ctx.violation(&format!("C16/no-report/{}", which), "the command did not run (no self-report)", J::obj().set("calls", J::arr_s(trace)));
            return;
        }
    };
    ctx.count("children_compared", 1);
    let wit = |extra: J| J::obj().set("calls", J::arr_s(trace)).set("terminator", J::s(term)).set("which", J::s(which)).set("detail", extra);
    let mut want_argv: Vec<Vec<u8>> = vec![exe.as_os_str().as_bytes().to_vec()];
    want_argv.extend(model.args.iter().cloned());
    if rep.argv != want_argv {
        ctx.violation(
            &format!("C16/args/{}", which),
            "arguments differ from the order in which they were added",
            wit(J::obj().set("want", J::Arr(want_argv.iter().map(|a| J::bytes(a)).collect())).set("got", J::Arr(rep.argv.iter().map(|a| J::bytes(a)).collect()))),
        );
    }
    let mut got_env = BTreeMap::new();
    for e in &rep.env {
        let eq = e.iter().position(|&c| c == b'=').unwrap_or(e.len());
        got_env.insert(e[..eq].to_vec(), e.get(eq + 1..).unwrap_or(b"").to_vec());
    }
    let want_env = model.final_env();
    if got_env != want_env {
        let diff: Vec<String> = want_env
            .iter()
            .filter(|(k, v)| got_env.get(*k) != Some(v))
            .map(|(k, v)| format!("want {}={} got {:?}", show_bytes(k, 20), show_bytes(v, 20), got_env.get(k).map(|x| show_bytes(x, 20))))
            .chain(got_env.iter().filter(|(k, _)| !want_env.contains_key(*k)).map(|(k, v)| format!("unexpected {}={}", show_bytes(k, 20), show_bytes(v, 20))))
            .take(6)
            .collect();
        ctx.violation(&format!("C16/env/{}", which), "the environment differs from what the ordered edits predict", wit(J::arr_s(&diff)));
    }
    let want_cwd = match &model.cwd {
        Some(p) => std::fs::canonicalize(p).unwrap_or_default(),
        None => std::env::current_dir().unwrap(),
    };
    if rep.cwd != want_cwd.as_os_str().as_bytes() {
        ctx.violation(&format!("C16/cwd/{}", which), "working directory differs", wit(J::bytes(&rep.cwd)));
    }
    // input data must have been delivered (the child reads up to 64 bytes once)
    if let S::Data(d) = &model.sin {
        if which == "edited" {
            let got = rep.stdin.clone().unwrap_or_default();
            ctx.count("input_data_deliveries_checked", 1);
            if !d.starts_with(&got) || (got.is_empty() && !d.is_empty()) {
                ctx.violation("C16/input-data", "the supplied input data did not reach the child's stdin", wit(J::obj().set("want", J::bytes(d)).set("got", J::bytes(&got))));
            }
        }
    }
}

fn shell_case(ctx: &mut Ctx, rng: &mut Rng, _i: u64) {
    // Exec::shell passes its string to the platform shell as one single argument
    run::begin_case();
    let dir = ctx.scratch("c16s");
    let fake = dir.join("sh");
    if std::fs::hard_link(&ctx.vchild, &fake).is_err() {
        std::fs::copy(&ctx.vchild, &fake).unwrap();
    }
    let rep = dir.join("sh.rep");
    let n = rng.range(0, 40) as usize;
    // any string the platform accepts as one argument: shell metacharacters, non-ASCII text, bytes that are not UTF-8
    let raw = rng.chance(400);
    let sb: Vec<u8> = if raw {
        (0..n).flat_map(|_| rng.pick(&[&b"a"[..], b" ", b";", b"'", b"\"", b"$", b"\xe9", b"\xff", b"\xfe", b"\xc3\xa9", b"\xc3", b"\x80", b"\xf0\x9f", b"\n"]).to_vec()).collect()
    } else {
        let t: String = (0..n).map(|_| *rng.pick(&['a', ' ', ';', '|', '&', '"', '\'', '$', '(', ')', '*', '\n', '\t', '>', '<', '\\', '`', '#', 'é'])).collect();
        t.into_bytes()
    };
    let s = show_bytes(&sb, 200);
    let old = std::env::var_os("PATH");
    std::env::set_var("PATH", &dir);
    let rep2 = rep.clone();
    let s2 = os(&sb);
    let route = rng.below(3);
    let m = run::monitored(move || {
        let e = Exec::shell(&s2).env("VCHILD_REPORT", &rep2);
        match route {
            0 => e.join(),
            1 => e.clone().join(),
            _ => e.capture().map(|c| c.exit_status),
        }
    });
    match old {
        Some(p) => std::env::set_var("PATH", p),
        None => std::env::remove_var("PATH"),
    }
    ctx.count("shell_strings", 1);
    match crate::kid::wait_report(&rep, 3000) {
        Some(r) => {
            let want: Vec<Vec<u8>> = vec![b"sh".to_vec(), b"-c".to_vec(), sb.clone()];
            if r.argv != want {
                ctx.violation("C16/shell-argument", "Exec::shell did not pass its string to the shell as one single argument after `sh -c`", J::obj().set("string", J::s(&s)).set("argv", J::Arr(r.argv.iter().map(|a| J::bytes(a)).collect())));
            }
        }
        None => ctx.violation("C16/shell-not-run", "Exec::shell did not run `sh` from PATH", J::obj().set("string", J::s(&s)).set("result", J::s(&format!("{:?} {:?}", m.result.map(|r| r.map_err(|e| e.to_string())), m.panic)))),
    }
    if raw && std::str::from_utf8(&sb).is_err() {
        ctx.count("shell_strings_that_are_not_utf8", 1);
    }
    ctx.distinct(&format!("shell|{}|{}", route, s));
    run::end_case();
}

pub fn run(ctx: &mut Ctx) {
    let n = ctx.n(4000, 60_000);
    ctx.family("sequences", n, seq_case);
    let ns = ctx.n(300, 5000);
    ctx.family("shell", ns, shell_case);
}
