// C08 — no pipe end leaks into a child.
// Every child started through the library reports its own descriptor table; any
// descriptor above 2 that refers to a pipe the library created (known from the
// interposed pipe()/pipe2() log) and is not that child's own stream object refutes
// the property.  Roles are assigned from observation.

use crate::ilog::{self, k, Ev};
use crate::inspect;
use crate::json::J;
use crate::kid::Report;
use crate::plan::{self, Rule};
use crate::rng::Rng;
use crate::run::{self, Ctx};
use crate::spawn;
use std::collections::{BTreeMap, BTreeSet};
use std::ffi::OsString;
use std::os::unix::fs::MetadataExt;
use std::path::{Path, PathBuf};
use subprocess::{Exec, Pipeline, Popen, PopenConfig, Redirection};

fn ino_of(f: &Option<std::fs::File>) -> Option<u64> {
    f.as_ref().and_then(|f| f.metadata().ok()).map(|m| m.ino())
}

/// Audit one child's report. `lib`: all library-created pipe inodes of the case; `roles`: inode -> role text.
fn audit_child(ctx: &mut Ctx, who: &str, mode: &str, rep: &Report, lib: &BTreeSet<u64>, roles: &BTreeMap<u64, String>, evs: &[Ev]) {
    ctx.count("children_audited", 1);
    ctx.count(&format!("children_audited.{}", mode), 1);
    let bad = spawn::foreign_fds(rep, lib);
    if bad.is_empty() {
        return;
    }
    // label by role of the first foreign descriptor
    let mut role = "unknown-pipe".to_string();
    if bad.iter().all(|b| b.contains("extra copy of its own stream")) {
        role = "extra-copy-of-own-stream-end".to_string();
    }
    for f in &rep.fds {
        if f.fd > 2 {
            if let Some(i) = f.pipe_ino() {
                if lib.contains(&i) {
                    if let Some(r) = roles.get(&i) {
                        if role != "extra-copy-of-own-stream-end" {
                            role = r.clone();
                        }
                        break;
                    }
                }
            }
        }
    }
    ctx.count(&format!("foreign_descriptors.{}", role), bad.len() as i64);
    ctx.violation(
        &format!("C08/{}/{}", mode, role),
        &format!("child {} holds a descriptor for a pipe that is not one of its own streams ({})", who, role),
        J::obj()
            .set("child", J::s(who))
            .set("foreign", J::arr_s(&bad))
            .set("child_fds", spawn::report_json(rep))
            .set("roles", J::Arr(roles.iter().map(|(i, r)| J::s(&format!("pipe:[{}] = {}", i, r))).collect()))
            .set("pipe_events", J::arr_s(&evs.iter().filter(|e| e.kind == k::PIPE || e.kind == k::PIPE2 || e.kind == k::FORK).map(ilog::fmt_ev).collect::<Vec<_>>())),
    );
}

fn stream_cfg(rng: &mut Rng, dir: &Path, j: usize) -> (Redirection, Redirection, Redirection, String) {
    let mut desc = String::new();
    let mut mk = |s: usize, rng: &mut Rng| -> Redirection {
        let choice = rng.below(if s == 0 { 3 } else { 4 });
        match choice {
            0 => {
                desc.push('N');
                Redirection::None
            }
            1 => {
                desc.push('P');
                Redirection::Pipe
            }
            2 => {
                desc.push('F');
                let p = dir.join(format!("f{}-{}", j, s));
                std::fs::write(&p, b"data").unwrap();
                Redirection::File(std::fs::OpenOptions::new().read(true).write(true).open(p).unwrap())
            }
            _ => {
                desc.push('M');
                Redirection::Merge
            }
        }
    };
    let a = mk(0, rng);
    let b = mk(1, rng);
    let mut c = mk(2, rng);
    if matches!(b, Redirection::Merge) && matches!(c, Redirection::Merge) {
        c = Redirection::Pipe;
        desc.pop();
        desc.push('P');
    }
    (a, b, c, desc)
}

fn sequential(ctx: &mut Ctx, rng: &mut Rng, i: u64) {
    run::begin_case();
    let dir = ctx.scratch("c08s");
    let n = rng.range(2, ctx.n(8, 12)) as usize;
    let mut alive: Vec<Popen> = vec![];
    let mut reports: Vec<(String, Report, usize, usize)> = vec![];
    let mut roles: BTreeMap<u64, (usize, bool)> = BTreeMap::new(); // inode -> (spawn index, is status channel)
    let mut cfgs = vec![];
    // widen the windows between descriptor creation, flag setting and fork
    plan::seed(rng.next());
    plan::add(Rule { kind: k::PIPE, scope: plan::SCOPE_PARENT, nth: 0, fd: -1, act: plan::ACT_DELAY_AFTER, val: -300, prob: 300 });
    let mut failed = false;
    for j in 0..n {
        let exe = spawn::report_exe(ctx, &dir, &format!("s{}", j), "h");
        let (a, b, c, desc) = stream_cfg(rng, &dir, j);
        cfgs.push(desc.clone());
        let argv = vec![exe.clone().into_os_string()];
        let config = PopenConfig { stdin: a, stdout: b, stderr: c, ..Default::default() };
        let m = run::monitored(|| Popen::create(&argv, config));
        let (s, e) = (m.ev_start, m.ev_end);
        let evs = m.events();
        match m.result {
            Some(Ok(p)) => {
                let own: Vec<Option<u64>> = vec![ino_of(&p.stdin), ino_of(&p.stdout), ino_of(&p.stderr)];
                for lp in spawn::lib_pipes(&evs) {
                    let is_status = !own.iter().any(|o| *o == Some(lp.ino));
                    roles.insert(lp.ino, (j, is_status));
                }
                match spawn::get_report(&exe, 3000) {
                    Some(r) => reports.push((format!("spawn {} ({})", j, desc), r, s, e)),
                    None => {
                        ctx.inconclusive("child did not report", J::s(&desc));
                        failed = true;
                    }
                }
                alive.push(p);
            }
            Some(Err(e)) => {
                ctx.inconclusive("spawn failed in C08 history", J::s(&format!("{:?}", e)));
                failed = true;
            }
            None => {
                ctx.violation("C08/panic", "Popen::create panicked", J::s(m.panic.as_deref().unwrap_or("")));
                failed = true;
            }
        }
        if failed {
            break;
        }
    }
    let evs = ilog::snapshot();
    let lib: BTreeSet<u64> = spawn::lib_pipes(&evs).iter().map(|p| p.ino).collect();
    ctx.count("library_pipes_seen", lib.len() as i64);
    for (j, (who, rep, _, _)) in reports.iter().enumerate() {
        // relabel roles relative to this child
        let mut rel: BTreeMap<u64, String> = BTreeMap::new();
        for (ino, (sj, is_status)) in &roles {
            let mine = *sj == j;
            let lbl = if *is_status {
                if mine { "own-status-channel".to_string() } else { "status-channel-of-another-spawn".to_string() }
            } else if mine {
                "parent-side-of-own-pipe".to_string()
            } else {
                "pipe-of-another-child".to_string()
            };
            rel.insert(*ino, lbl);
        }
        audit_child(ctx, who, "sequential", rep, &lib, &rel, &evs);
    }
    // EOF propagation, decided on state: after the parent closes its end of a child's stdin pipe nobody but that child may hold the pipe
    for (j, p) in alive.iter_mut().enumerate() {
        if let Some(ino) = ino_of(&p.stdin) {
            drop(p.stdin.take());
            ctx.count("eof_propagation_checks", 1);
            let me = inspect::self_pid();
            let mut holders = vec![];
            for pid in std::iter::once(me).chain(inspect::descendants(me)) {
                for f in inspect::fd_table(pid) {
                    if f.pipe_ino() == Some(ino) && f.can_write() {
                        holders.push(format!("pid {} fd {} [{}]", pid, f.fd, inspect::proc_cmdline(pid)));
                    }
                }
            }
            if !holders.is_empty() {
                ctx.violation(
                    "C08/eof/stdin-write-end-still-held",
                    &format!("after the parent closed its end of child {}'s stdin pipe, a write end is still open elsewhere: the child can never see end-of-file", j),
                    J::arr_s(&holders),
                );
            }
        }
    }
    for p in alive.iter() {
        if let Some(pid) = p.pid() {
            spawn::kill_now(pid as i32);
        }
    }
    drop(alive);
    ctx.distinct(&format!("seq|{}", cfgs.join(",")));
    if i < 2 {
        ctx.sample(J::obj().set("history", J::arr_s(&cfgs)));
    }
    run::end_case();
}

fn pipeline_case(ctx: &mut Ctx, rng: &mut Rng, i: u64) {
    run::begin_case();
    let dir = ctx.scratch("c08p");
    let n = rng.range(2, 6) as usize;
    let mode = i % 4; // 0 popen, 1 capture, 2 communicate, 3 popen with piped ends
    let hold = mode == 0 || mode == 3;
    let mut exes: Vec<PathBuf> = vec![];
    let mut cmds: Vec<Exec> = vec![];
    for j in 0..n {
        let exe = spawn::report_exe(ctx, &dir, &format!("p{}", j), if hold { "h" } else { "x" });
        cmds.push(Exec::cmd(&exe));
        exes.push(exe);
    }
    // an unrelated long-lived child started before, with its own pipes kept open
    let bystander_exe = spawn::report_exe(ctx, &dir, "by", "h");
    let bystander = run::monitored(|| Exec::cmd(&bystander_exe).stdin(Redirection::Pipe).stdout(Redirection::Pipe).popen()).result;
    let mut pl = Pipeline::from_exec_iter(cmds);
    if mode == 3 {
        pl = pl.stdin(Redirection::Pipe).stdout(Redirection::Pipe);
    }
    let mname = ["popen", "capture", "communicate", "popen-piped"][mode as usize];
    let mut handles: Vec<Popen> = vec![];
    let mut comm = None;
    let m = run::monitored(|| match mode {
        0 | 3 => pl.popen().map(|v| {
            handles = v;
        }),
        1 => pl.capture().map(|_| ()),
        _ => pl.communicate().map(|c| {
            comm = Some(c);
        }),
    });
    if let Some(p) = &m.panic {
        ctx.violation("C08/panic/pipeline", "pipeline terminator panicked", J::s(p));
    }
    if let Some(c) = &m.cert {
        ctx.violation(&format!("C08/hang/pipeline-{}", mname), "pipeline terminator deadlocked", run::cert_json(c));
    }
    let evs = ilog::snapshot();
    let lib: BTreeSet<u64> = spawn::lib_pipes(&evs).iter().map(|p| p.ino).collect();
    ctx.count("library_pipes_seen", lib.len() as i64);
    for (j, exe) in exes.iter().enumerate() {
        match spawn::get_report(exe, 3000) {
            Some(rep) => {
                // role from observation: a pipe none of whose ends is the child's own stream
                let mut roles = BTreeMap::new();
                for ino in &lib {
                    roles.insert(*ino, "pipe-not-belonging-to-this-stage".to_string());
                }
                audit_child(ctx, &format!("stage {}/{} of {}", j, n, mname), &format!("pipeline-{}", mname), &rep, &lib, &roles, &evs);
                ctx.count(&format!("stage_position.{}", if j == 0 { "first" } else if j == n - 1 { "last" } else { "middle" }), 1);
            }
            None => ctx.inconclusive("pipeline stage did not report", J::s(mname)),
        }
    }
    for p in handles.iter() {
        if let Some(pid) = p.pid() {
            spawn::kill_now(pid as i32);
        }
    }
    drop(handles);
    drop(comm);
    if let Some(Ok(b)) = bystander {
        if let Some(pid) = b.pid() {
            spawn::kill_now(pid as i32);
        }
        drop(b);
    }
    ctx.distinct(&format!("pl|{}|{}", n, mname));
    run::end_case();
}

struct ThreadOut {
    reports: Vec<(String, Option<Report>)>,
}

fn concurrent(ctx: &mut Ctx, rng: &mut Rng, i: u64) {
    run::begin_case();
    let dir = ctx.scratch("c08c");
    let nthreads = rng.range(2, ctx.n(8, 16)) as usize;
    let rounds = rng.range(3, 10) as usize;
    plan::seed(rng.next());
    plan::add(Rule { kind: k::PIPE, scope: plan::SCOPE_PARENT, nth: 0, fd: -1, act: plan::ACT_DELAY_AFTER, val: -200, prob: 500 });
    plan::add(Rule { kind: k::FORK, scope: plan::SCOPE_PARENT, nth: 0, fd: -1, act: plan::ACT_DELAY_BEFORE, val: -200, prob: 300 });
    let vchild = ctx.vchild.clone();
    let mut exes: Vec<Vec<PathBuf>> = vec![];
    for t in 0..nthreads {
        let mut v = vec![];
        for r in 0..rounds {
            let p = dir.join(format!("vrep@t{}r{}@x", t, r));
            if std::fs::hard_link(&vchild, &p).is_err() {
                std::fs::copy(&vchild, &p).unwrap();
            }
            v.push(p);
        }
        exes.push(v);
    }
    let exes2 = exes.clone();
    let m = run::monitored(move || {
        let mut hs = vec![];
        for t in 0..nthreads {
            let mine = exes2[t].clone();
            hs.push(std::thread::spawn(move || {
                ilog::set_subject(true);
                let mut out = ThreadOut { reports: vec![] };
                for (r, exe) in mine.iter().enumerate() {
                    let argv = vec![exe.clone().into_os_string(), OsString::from("x")];
                    let cfg = PopenConfig {
                        stdin: if (t + r) % 2 == 0 { Redirection::Pipe } else { Redirection::None },
                        stdout: Redirection::Pipe,
                        stderr: match r % 4 { 0 => Redirection::Pipe, 1 => Redirection::Merge, _ => Redirection::None },
                        ..Default::default()
                    };
                    match Popen::create(&argv, cfg) {
                        Ok(mut p) => {
                            let rep = ilog::quiet(|| spawn::get_report(exe, 5000));
                            let _ = p.wait();
                            out.reports.push((format!("thread {} round {}", t, r), rep));
                        }
                        Err(_) => out.reports.push((format!("thread {} round {} (launch failed)", t, r), None)),
                    }
                }
                ilog::set_subject(false);
                out
            }));
        }
        hs.into_iter().map(|h| h.join()).collect::<Vec<_>>()
    });
    let evs = ilog::snapshot();
    if ilog::overflowed() {
        ctx.inconclusive("event log overflow in concurrent storm", J::Null);
    }
    let lib: BTreeSet<u64> = spawn::lib_pipes(&evs).iter().map(|p| p.ino).collect();
    ctx.count("library_pipes_seen", lib.len() as i64);
    let mut roles = BTreeMap::new();
    for ino in &lib {
        roles.insert(*ino, "pipe-of-a-concurrent-spawn".to_string());
    }
    if let Some(res) = m.result {
        for r in res {
            match r {
                Ok(out) => {
                    for (who, rep) in out.reports {
                        match rep {
                            Some(rep) => audit_child(ctx, &who, "concurrent", &rep, &lib, &roles, &[]),
                            None => ctx.count("concurrent_children_without_report", 1),
                        }
                    }
                }
                Err(_) => ctx.violation("C08/panic/concurrent", "a spawning thread panicked", J::Null),
            }
        }
    }
    ctx.count("concurrent_storms", 1);
    ctx.max("threads", nthreads as i64);
    ctx.distinct(&format!("conc|{}|{}|{}", nthreads, rounds, i));
    run::end_case();
}

/// The parent has closed two of its own standard descriptors, so the pipes the library creates (the launch-status
/// channel first) get the numbers 0/1/2 themselves; streams the spawn leaves alone must stay closed in the child.
fn parent_std_closed(ctx: &mut Ctx, rng: &mut Rng, i: u64) {
    run::begin_case();
    let dir = ctx.scratch("c08x");
    let exe = spawn::report_exe(ctx, &dir, "x", "x");
    let pairs = [(0, 1), (0, 2), (1, 2)];
    let (a, b) = pairs[(i % 3) as usize];
    // which of the remaining configurations: everything inherited, or the still-open stream piped
    let third = 3 - a - b;
    let pipe_third = rng.chance(500);
    let _hole = crate::inspect::proc_guard();
    let argv = vec![exe.clone().into_os_string()];
    // (the redirection files are opened while all descriptors are still in place, so they get high numbers)
    let config = {
        let redirect_a = rng.chance(500);
        let redirect_b = rng.chance(500);
        let mk = |s: i32| {
            if s == third && pipe_third {
                Redirection::Pipe
            } else if (s == a && redirect_a) || (s == b && redirect_b) {
                Redirection::File(std::fs::OpenOptions::new().read(true).write(true).open("/dev/null").unwrap())
            } else {
                Redirection::None
            }
        };
        PopenConfig { stdin: mk(0), stdout: mk(1), stderr: mk(2), ..Default::default() }
    };
    let (sa, sb) = unsafe {
        let sa = libc::syscall(libc::SYS_fcntl, a, libc::F_DUPFD_CLOEXEC, 100) as i32;
        let sb = libc::syscall(libc::SYS_fcntl, b, libc::F_DUPFD_CLOEXEC, 100) as i32;
        libc::syscall(libc::SYS_close, a);
        libc::syscall(libc::SYS_close, b);
        (sa, sb)
    };
    // (the lock is for making and unmaking the layout only: the watchdog must be able to look at a launch that hangs)
    drop(_hole);
    let before = spawn::snap();
    let m = run::monitored(|| Popen::create(&argv, config));
    let evs = m.events();
    let res = m.result;
    let mut popen = None;
    let launched = match res {
        Some(Ok(p)) => {
            popen = Some(p);
            true
        }
        _ => false,
    };
    // the parent keeps its own side of the pipes and nothing else: an end meant for the child that stays open in the
    // parent (it may sit on one of the numbers 0..2 here) withholds end-of-file just as well as one leaked into a child
    if let Some(p) = &popen {
        use std::os::unix::io::AsRawFd;
        let allowed: Vec<i32> = [&p.stdin, &p.stdout, &p.stderr].iter().filter_map(|f| f.as_ref().map(|f| f.as_raw_fd())).collect();
        let kept: Vec<String> = crate::ilog::quiet(|| spawn::leaked(&before, &spawn::snap(), &allowed)).into_iter().filter(|s| s.contains("pipe:")).collect();
        ctx.count("parent_side_audits_after_a_launch_with_closed_standard_descriptors", 1);
        if !kept.is_empty() {
            ctx.violation("C08/parent-std-closed/parent-keeps-a-pipe-end-meant-for-the-child", "after the launch the parent holds, besides its own side, an end of a pipe that was meant for the child: the peer never sees end-of-file", J::obj().set("closed_in_parent", J::s(&format!("{} and {}", a, b))).set("kept", J::arr_s(&kept)));
        }
    }
    let rep = if launched { spawn::get_report(&exe, 3000) } else { None };
    if let Some(mut p) = popen {
        let _ = crate::ilog::quiet(|| p.wait());
    }
    let _hole = crate::inspect::proc_guard();
    unsafe {
        libc::syscall(libc::SYS_dup3, sa, a, 0);
        libc::syscall(libc::SYS_dup3, sb, b, 0);
        libc::syscall(libc::SYS_close, sa);
        libc::syscall(libc::SYS_close, sb);
    }
    drop(_hole);
    ctx.count("spawns_with_two_parent_std_descriptors_closed", 1);
    if let Some(rep) = rep {
        let lib: BTreeSet<u64> = spawn::lib_pipes(&evs).iter().map(|p| p.ino).collect();
        // here descriptors 0/1/2 count too: a stream the spawn left alone was closed in the parent and must not
        // turn out to be one of the library's own pipes in the child
        let mut bad = vec![];
        for f in &rep.fds {
            if let Some(ino) = f.pipe_ino() {
                let is_own_stream = f.fd == third && pipe_third;
                if lib.contains(&ino) && !is_own_stream {
                    bad.push(format!("child fd {} -> pipe:[{}] ({} end)", f.fd, ino, if f.writable() { "write" } else { "read" }));
                }
            }
        }
        ctx.count("children_audited", 1);
        ctx.count("children_audited.parent-std-closed", 1);
        if !bad.is_empty() {
            ctx.violation(
                "C08/parent-std-closed/launch-status-channel-or-foreign-pipe",
                "with two of the parent's standard descriptors closed, the child holds a pipe the library created that is not one of its requested streams (the launch-status channel landed on a standard descriptor number and was kept)",
                J::obj().set("closed_in_parent", J::s(&format!("{} and {}", a, b))).set("foreign", J::arr_s(&bad)).set("child_fds", spawn::report_json(&rep)).set("events", J::arr_s(&ilog::fmt_tail(&evs, 30))),
            );
        }
    }
    ctx.distinct(&format!("closed{}{}{}", a, b, pipe_third));
    run::end_case();
}

/// A second command is started while an exchange with the first one is under way: the pipe ends the Communicator (or a
/// stream adapter) holds for the first child are the parent's side of a library pipe like any other.
fn while_communicating(ctx: &mut Ctx, rng: &mut Rng, i: u64) {
    use std::io::Read;
    run::begin_case();
    let dir = ctx.scratch("c08w");
    let exe_a = spawn::report_exe(ctx, &dir, "a", "h");
    let exe_b = spawn::report_exe(ctx, &dir, "b", "x");
    let how = ["communicate_start", "communicate_start+read", "Exec::communicate", "Exec::communicate+read", "Exec::stream_stdout", "Exec::stream_stdin", "Pipeline::communicate+read"][(i % 7) as usize];
    let input = vec![b'i'; *rng.pick(&[0usize, 10, 5000, 200_000])];
    // holders of the first command, kept alive across the second spawn
    let mut keep_popen: Option<Popen> = None;
    let mut keep_comm: Option<subprocess::Communicator> = None;
    let mut keep_reader: Option<Box<dyn Read>> = None;
    let mut keep_writer: Option<Box<dyn std::io::Write>> = None;
    let inp = input.clone();
    let m = run::monitored(|| -> Result<(), String> {
        match how {
            "communicate_start" | "communicate_start+read" => {
                let mut p = Popen::create(&[exe_a.clone().into_os_string()], PopenConfig { stdin: Redirection::Pipe, stdout: Redirection::Pipe, stderr: Redirection::Pipe, ..Default::default() }).map_err(|e| e.to_string())?;
                let mut c = p.communicate_start(Some(inp)).limit_time(std::time::Duration::from_millis(2));
                if how.ends_with("read") {
                    let _ = c.read();
                }
                keep_comm = Some(c);
                keep_popen = Some(p);
            }
            "Exec::communicate" | "Exec::communicate+read" => {
                let mut c = Exec::cmd(&exe_a).stdin(inp).stdout(Redirection::Pipe).stderr(Redirection::Pipe).communicate().map_err(|e| e.to_string())?.limit_time(std::time::Duration::from_millis(2));
                if how.ends_with("read") {
                    let _ = c.read();
                }
                keep_comm = Some(c);
            }
            "Exec::stream_stdout" => keep_reader = Some(Box::new(Exec::cmd(&exe_a).stream_stdout().map_err(|e| e.to_string())?)),
            "Exec::stream_stdin" => keep_writer = Some(Box::new(Exec::cmd(&exe_a).stdout(subprocess::NullFile).stream_stdin().map_err(|e| e.to_string())?)),
            _ => {
                let exe_a2 = spawn::report_exe(ctx, &dir, "a2", "h");
                let mut c = (Exec::cmd(&exe_a) | Exec::cmd(&exe_a2)).stdin(inp).communicate().map_err(|e| e.to_string())?.limit_time(std::time::Duration::from_millis(2));
                let _ = c.read();
                keep_comm = Some(c);
            }
        }
        Ok(())
    });
    if let Some(Err(e)) = &m.result {
        ctx.inconclusive("first command could not be started", J::s(e));
        run::end_case();
        return;
    }
    if m.panic.is_some() || m.cert.is_some() {
        ctx.inconclusive("first command: exchange did not get under way", J::s(&format!("{:?}", m.panic)));
        run::end_case();
        return;
    }
    let _ = spawn::get_report(&exe_a, 3000);
    // the second, unrelated command
    let cfg_b = match rng.below(3) { 0 => PopenConfig::default(), 1 => PopenConfig { stdout: Redirection::Pipe, ..Default::default() }, _ => PopenConfig { stdin: Redirection::Pipe, stdout: Redirection::Pipe, stderr: Redirection::Merge, ..Default::default() } };
    let m2 = run::monitored(|| Popen::create(&[exe_b.clone().into_os_string()], cfg_b));
    let evs = ilog::snapshot();
    let lib: BTreeSet<u64> = spawn::lib_pipes(&evs).iter().map(|p| p.ino).collect();
    ctx.count("spawns_while_an_exchange_with_another_child_is_under_way", 1);
    match m2.result {
        Some(Ok(mut pb)) => {
            if let Some(rep) = spawn::get_report(&exe_b, 3000) {
                let own: Vec<Option<u64>> = vec![ino_of(&pb.stdin), ino_of(&pb.stdout), ino_of(&pb.stderr)];
                let mut roles: BTreeMap<u64, String> = BTreeMap::new();
                for ino in &lib {
                    roles.insert(*ino, if own.iter().any(|o| *o == Some(*ino)) { "parent-side-of-own-pipe".to_string() } else { format!("pipe-of-the-first-command({})", how) });
                }
                audit_child(ctx, &format!("second command, started while {} of the first was alive", how), "while-communicating", &rep, &lib, &roles, &evs);
            } else {
                ctx.inconclusive("second child did not report", J::s(how));
            }
            drop(pb.stdin.take());
            let _ = pb.wait();
        }
        Some(Err(e)) => ctx.inconclusive("second spawn failed", J::s(&format!("{:?}", e))),
        None => ctx.violation("C08/panic", "Popen::create panicked", J::s(m2.panic.as_deref().unwrap_or(""))),
    }
    // end the first command before its holders are dropped (a stream adapter waits for it)
    inspect::kill_descendants();
    drop(keep_comm);
    drop(keep_reader);
    drop(keep_writer);
    drop(keep_popen);
    ctx.distinct(&format!("whilecomm|{}|{}", how, input.len()));
    run::end_case();
}

/// Launches that fail between fork and exec while other commands are alive: the forked child holds a copy of every
/// descriptor of the caller until it execs or exits, so it must do one of the two at once - neither return into the
/// caller's code nor sit there waiting.
fn failing_launch_among_live_children(ctx: &mut Ctx, rng: &mut Rng, i: u64) {
    run::begin_case();
    let dir = ctx.scratch("c08f");
    // a live command with all three streams piped
    let exe_a = spawn::report_exe(ctx, &dir, "a", "h");
    let ma = run::monitored(|| Popen::create(&[exe_a.clone().into_os_string()], PopenConfig { stdin: Redirection::Pipe, stdout: Redirection::Pipe, stderr: Redirection::Pipe, ..Default::default() }));
    let pa = match ma.result {
        Some(Ok(p)) => p,
        _ => {
            ctx.inconclusive("first command could not be started", J::Null);
            run::end_case();
            return;
        }
    };
    let _ = spawn::get_report(&exe_a, 3000);
    let exe_b = spawn::report_exe(ctx, &dir, "b", "x");
    let how = ["identity-refused", "exec-fails:ETXTBSY", "exec-fails:EAGAIN", "exec-fails:ENOMEM", "chdir-refused", "program-missing/stderr-is-a-full-pipe", "nowhere-to-look-on-PATH"][(i % 7) as usize];
    let mut cfg = PopenConfig { stdout: if rng.chance(500) { Redirection::Pipe } else { Redirection::None }, ..Default::default() };
    let mut argv_b = vec![exe_b.clone().into_os_string()];
    let mut full_pipe: Option<(i32, std::fs::File)> = None;
    let old_path = std::env::var_os("PATH");
    match how {
        "program-missing/stderr-is-a-full-pipe" => {
            // the command's stderr is a pipe of the caller's that is full at the moment and that the caller reads only
            // after the launch has returned (a log collector): nothing the launch does may depend on it being drained
            use std::os::unix::io::FromRawFd;
            let mut fds = [0i32; 2];
            let _g = inspect::proc_guard();
            if unsafe { libc::syscall(libc::SYS_pipe2, fds.as_mut_ptr(), libc::O_CLOEXEC) } == 0 {
                unsafe {
                    libc::syscall(libc::SYS_fcntl, fds[1], libc::F_SETFL, libc::O_NONBLOCK);
                    let junk = [b'.'; 4096];
                    while libc::syscall(libc::SYS_write, fds[1], junk.as_ptr(), junk.len()) > 0 {}
                    while libc::syscall(libc::SYS_write, fds[1], junk.as_ptr(), 1usize) > 0 {}
                    libc::syscall(libc::SYS_fcntl, fds[1], libc::F_SETFL, 0);
                    cfg.stderr = Redirection::File(std::fs::File::from_raw_fd(fds[1]));
                    full_pipe = Some((fds[0], std::fs::File::from_raw_fd(fds[0])));
                }
            }
            argv_b = vec![dir.join("no-such-program").into_os_string()];
        }
        "nowhere-to-look-on-PATH" => {
            std::env::set_var("PATH", [":", "::", ":::"][(i / 7 % 3) as usize]);
            argv_b = vec![std::ffi::OsString::from("no-such-program-anywhere")];
        }
        _ => {}
    }
    match how {
        "identity-refused" => {
            if rng.chance(500) {
                cfg.setuid = Some(u32::MAX);
            } else {
                cfg.setgid = Some(u32::MAX);
            }
        }
        "chdir-refused" => cfg.cwd = Some(dir.join("no/such/dir").into_os_string()),
        "program-missing/stderr-is-a-full-pipe" | "nowhere-to-look-on-PATH" => {}
        _ => {
            let e = match how {
                "exec-fails:ETXTBSY" => libc::ETXTBSY,
                "exec-fails:EAGAIN" => libc::EAGAIN,
                _ => libc::ENOMEM,
            };
            plan::add(Rule { kind: k::EXECVE, scope: plan::SCOPE_CHILD, nth: 0, fd: -1, act: plan::ACT_FAIL, val: e as i64, prob: 1000 });
        }
    }
    // the caller has exit-time work registered (atexit); in every other case that work cannot finish in a forked copy
    let handler_blocks = (i / 5) % 2 == 1;
    ilog::EXIT_HANDLER_BLOCKS.store(handler_blocks, std::sync::atomic::Ordering::SeqCst);
    let m = run::monitored(|| Popen::create(&argv_b, cfg));
    ilog::EXIT_HANDLER_BLOCKS.store(false, std::sync::atomic::Ordering::SeqCst);
    if how == "nowhere-to-look-on-PATH" {
        match &old_path {
            Some(p) => std::env::set_var("PATH", p),
            None => std::env::remove_var("PATH"),
        }
    }
    drop(full_pipe);
    let child_panics = ilog::shared().map(|s| s.child_panics.load(std::sync::atomic::Ordering::SeqCst)).unwrap_or(0);
    let evs = m.events();
    ctx.count("failing_launches_while_another_command_is_alive", 1);
    ctx.count("failing_launches_in_a_caller_with_exit_handlers", 1);
    let result_text = format!("{:?}", m.result.as_ref().map(|r| r.as_ref().map(|_| "Popen").map_err(|e| e.to_string())));
    let child_events: Vec<String> = evs.iter().filter(|e| e.child != 0).map(ilog::fmt_ev).take(40).collect();
    let w = |extra: J| J::obj().set("failure", J::s(how)).set("result", J::s(&result_text)).set("child_side_events", J::arr_s(&child_events)).set("detail", extra);
    if ilog::child_escapes() > 0 {
        ctx.violation(&format!("C08/forked-copy-of-the-caller-lives-on/{}", how), "the child forked for the failing launch returned into the caller's code: a second copy of the caller, holding the parent's side of every pipe of every live command", w(J::Null));
    }
    if child_panics > 0 {
        ctx.violation(&format!("C08/forked-child-panics-in-the-callers-code/{}", how), "the child forked for the failing launch panicked: a copy of the caller, holding the parent's side of every pipe of every live command, unwinds through the caller's frames instead of reporting the failure and leaving", w(J::Null));
    }
    if ilog::child_exit_handlers() > 0 {
        ctx.violation(
            &format!("C08/forked-child-runs-the-callers-exit-handlers/{}", how),
            "the child forked for the failing launch left through exit(): a copy of the caller, holding the parent's side of every pipe of every live command, ran the caller's exit-time handlers (for as long as they take - for ever when one of them needs a lock whose owner was another thread)",
            w(J::obj().set("handler_blocks_in_a_copy", J::Bool(handler_blocks)).set("certificate", m.cert.as_ref().map(run::cert_json).unwrap_or(J::Null))),
        );
    } else if let Some(c) = &m.cert {
        ctx.violation(&format!("C08/failing-launch-never-returns/{}", how), "the failing launch did not return", w(run::cert_json(c)));
    }
    let naps: Vec<String> = evs.iter().filter(|e| e.child != 0 && e.kind == k::NANOSLEEP).map(ilog::fmt_ev).collect();
    if !naps.is_empty() {
        ctx.violation(&format!("C08/forked-child-sleeps-before-exec/{}", how), "the forked child went to sleep between fork and exec while holding a copy of every descriptor of the caller (the pipe ends of all live commands included): end-of-file cannot propagate for as long as it sleeps", w(J::arr_s(&naps)));
    }
    if let Some(Ok(mut p)) = m.result {
        let _ = p.wait();
    }
    inspect::kill_descendants();
    drop(pa);
    ctx.distinct(&format!("failing|{}|{}", how, i % 11));
    run::end_case();
}

/// Commands whose stderr is merged into an stdout that is left alone (or the other way round) refer to the caller's own
/// standard descriptor.  Such commands are started on threads that then finish (pool threads that retire, test threads);
/// afterwards a command with all streams piped is alive, and another merged command is started: it has no pipe of its
/// own at all, so no library pipe may be found anywhere in its descriptor table - the numbers 0..2 included.
fn merged_commands_after_threads_retired(ctx: &mut Ctx, rng: &mut Rng, i: u64) {
    run::begin_case();
    let dir = ctx.scratch("c08m");
    let save = spawn::StdSave::make();
    let target = |fd: i32| std::fs::read_link(format!("/proc/self/fd/{}", fd)).map(|p| p.to_string_lossy().into_owned()).unwrap_or_default();
    let std_before = [target(0), target(1), target(2)];
    let which = i % 3; // 0: stderr merged, 1: stdout merged, 2: one thread each
    let merged = |err_merged: bool| if err_merged { PopenConfig { stderr: Redirection::Merge, ..Default::default() } } else { PopenConfig { stdout: Redirection::Merge, ..Default::default() } };
    let nthreads = if which == 2 { 2 } else { 1 };
    let mut early = vec![];
    for t in 0..nthreads {
        let exe = spawn::report_exe(ctx, &dir, &format!("t{}", t), "x");
        let err_merged = if which == 2 { t == 0 } else { which == 0 };
        let exe2 = exe.clone();
        let repeat = rng.range(1, 3);
        let m = run::monitored(move || {
            std::thread::spawn(move || {
                ilog::set_subject(true);
                let mut r = Ok(());
                for _ in 0..repeat {
                    r = Popen::create(&[exe2.clone().into_os_string()], if err_merged { PopenConfig { stderr: Redirection::Merge, ..Default::default() } } else { PopenConfig { stdout: Redirection::Merge, ..Default::default() } }).and_then(|mut p| p.wait().map(|_| ())).map_err(|e| e.to_string());
                }
                ilog::set_subject(false);
                r
            })
            .join()
        });
        early.push(format!("{:?}", m.result.as_ref().map(|r| r.as_ref().map_err(|_| "thread panicked"))));
        let _ = spawn::get_report(&exe, 3000);
    }
    ctx.count("threads_that_started_merged_commands_and_retired", nthreads as i64);
    let std_after = [target(0), target(1), target(2)];
    // a command with every stream piped stays alive ...
    let exe_a = spawn::report_exe(ctx, &dir, "a", "h");
    let ma = run::monitored(|| Popen::create(&[exe_a.clone().into_os_string()], PopenConfig { stdin: Redirection::Pipe, stdout: Redirection::Pipe, stderr: Redirection::Pipe, ..Default::default() }));
    let evs_a = ma.events();
    let mut pa = match ma.result {
        Some(Ok(p)) => p,
        other => {
            ctx.inconclusive("piped command could not be started", J::s(&format!("{:?}", other.map(|r| r.map(|_| ()).map_err(|e| e.to_string())))));
            drop(save);
            run::end_case();
            return;
        }
    };
    let rep_a = spawn::get_report(&exe_a, 3000);
    // ... while further merged commands are started
    let lib: BTreeSet<u64> = spawn::lib_pipes(&evs_a).iter().map(|p| p.ino).collect();
    let own_a: Vec<(Option<u64>, &str)> = vec![(ino_of(&pa.stdin), "stdin"), (ino_of(&pa.stdout), "stdout"), (ino_of(&pa.stderr), "stderr")];
    let mut later = vec![];
    for (j, err_merged) in [(0, true), (1, false)] {
        let exe_b = spawn::report_exe(ctx, &dir, &format!("b{}", j), "h");
        let mb = run::monitored(|| Popen::create(&[exe_b.clone().into_os_string()], merged(err_merged)));
        match (mb.result, spawn::get_report(&exe_b, 3000)) {
            (Some(Ok(p)), Some(rep)) => {
                ctx.count("children_audited", 1);
                ctx.count("children_audited.merged-after-retired-threads", 1);
                let held: Vec<String> = rep
                    .fds
                    .iter()
                    .filter_map(|f| f.pipe_ino().filter(|i| lib.contains(i)).map(|i| format!("child fd {} -> pipe:[{}] ({} end; {})", f.fd, i, if f.writable() { "write" } else { "read" }, own_a.iter().find(|(o, _)| *o == Some(i)).map(|(_, n)| format!("the {} pipe of the other command", n)).unwrap_or_else(|| "launch-status channel".into()))))
                    .collect();
                if !held.is_empty() {
                    ctx.violation(
                        &format!("C08/merged-after-retired-threads/{}", if err_merged { "stderr-merged" } else { "stdout-merged" }),
                        "a command that has no pipe of its own (one output merged into the other, which is left alone) holds an end of another live command's pipe",
                        J::obj()
                            .set("held", J::arr_s(&held))
                            .set("child_fds", spawn::report_json(&rep))
                            .set("callers_standard_descriptors_before_the_threads", J::arr_s(&std_before.to_vec()))
                            .set("callers_standard_descriptors_after_the_threads", J::arr_s(&std_after.to_vec()))
                            .set("threads", J::arr_s(&early)),
                    );
                }
                later.push(p);
            }
            (r, _) => ctx.inconclusive("merged command did not run or report", J::s(&format!("{:?}", r.map(|r| r.map(|_| ()).map_err(|e| e.to_string()))))),
        }
    }
    // end-of-file for the piped command: once the parent closes its end nobody else may hold a write end
    if let Some(ino) = ino_of(&pa.stdin) {
        drop(pa.stdin.take());
        ctx.count("eof_propagation_checks", 1);
        let me = inspect::self_pid();
        let mut holders = vec![];
        for pid in std::iter::once(me).chain(inspect::descendants(me)) {
            for f in inspect::fd_table(pid) {
                if f.pipe_ino() == Some(ino) && f.can_write() {
                    holders.push(format!("pid {} fd {} [{}]", pid, f.fd, inspect::proc_cmdline(pid)));
                }
            }
        }
        if !holders.is_empty() {
            ctx.violation("C08/eof/stdin-write-end-still-held/merged-after-retired-threads", "after the parent closed its end of a command's stdin pipe, a write end is still open elsewhere: the command can never see end-of-file", J::arr_s(&holders));
        }
    }
    let _ = rep_a;
    for p in later.iter().chain(std::iter::once(&pa)) {
        if let Some(pid) = p.pid() {
            spawn::kill_now(pid as i32);
        }
    }
    drop(later);
    drop(pa);
    drop(save);
    ctx.distinct(&format!("merged-retired|{}|{}", which, i % 7));
    run::end_case();
}

/// Another thread of the caller keeps changing the environment (and so keeps taking the environment lock) while
/// commands are started: whatever lock some other thread holds at the moment of a fork is of no concern to the child,
/// which would otherwise sit there for ever with a copy of every pipe end of the caller.
fn spawns_while_the_environment_is_being_written(ctx: &mut Ctx, rng: &mut Rng, i: u64) {
    use std::sync::atomic::{AtomicBool, Ordering::SeqCst};
    run::begin_case();
    let dir = ctx.scratch("c08e");
    let exe = spawn::report_exe(ctx, &dir, "e", "x");
    let name = exe.file_name().unwrap().to_owned();
    let old_path = std::env::var_os("PATH");
    std::env::set_var("PATH", &dir);
    let stop = std::sync::Arc::new(AtomicBool::new(false));
    let stop2 = stop.clone();
    let writer = std::thread::spawn(move || {
        let mut n = 0u64;
        while !stop2.load(SeqCst) {
            std::env::set_var("VERIF_C08_SPIN", n.to_string());
            std::env::remove_var("VERIF_C08_SPIN");
            n += 1;
        }
    });
    let rounds = rng.range(20, 60);
    let how = i % 3;
    let m = run::monitored(|| -> Result<u64, String> {
        let mut ok = 0;
        for _ in 0..rounds {
            let e = match how {
                0 => Exec::cmd(&name).env_clear().env("ONLY", "this"),
                1 => Exec::cmd(&name).env_clear(),
                _ => Exec::cmd(&name).env("EXTRA", "1"),
            };
            e.join().map_err(|e| e.to_string())?;
            ok += 1;
        }
        Ok(ok)
    });
    stop.store(true, SeqCst);
    let _ = writer.join();
    match old_path {
        Some(p) => std::env::set_var("PATH", p),
        None => std::env::remove_var("PATH"),
    }
    ctx.count("spawns_while_another_thread_writes_the_environment", rounds as i64);
    ctx.distinct(&format!("envwriter|{}|{}", how, rounds % 7));
    if let Some(c) = &m.cert {
        ctx.violation("C08/forked-child-stuck-on-a-lock-of-the-caller", "a command was being started while another thread of the caller held a lock; the forked child waits for that lock for ever, holding a copy of every pipe end of the caller, and the launch never returns", run::cert_json(c));
    } else if let Some(Err(e)) = &m.result {
        ctx.inconclusive("launch failed while the environment was being written", J::s(e));
    }
    run::end_case();
}

pub fn run(ctx: &mut Ctx) {
    let ne = ctx.n(48, 800);
    ctx.family("spawns-while-the-environment-is-written", ne, spawns_while_the_environment_is_being_written);
    let nm = ctx.n(48, 900);
    ctx.family("merged-commands-after-threads-retired", nm, merged_commands_after_threads_retired);
    let nf = ctx.n(100, 2000);
    ctx.family("failing-launch-among-live-children", nf, failing_launch_among_live_children);
    let nw = ctx.n(210, 4000);
    ctx.family("while-communicating", nw, while_communicating);
    let nx = ctx.n(120, 1500);
    ctx.family("parent-std-closed", nx, parent_std_closed);
    let ns = ctx.n(640, 15_000);
    ctx.family("sequential", ns, sequential);
    let np = ctx.n(320, 8000);
    ctx.family("pipeline", np, pipeline_case);
    let nc = ctx.n(160, 3000);
    ctx.family("concurrent", nc, concurrent);
}
