// C01 — communicate always terminates;  C02 — communicate moves bytes exactly.
// Both run the same kind of exchanges (comm.rs); C01 judges termination (deadlock
// certificate, spin bound), C02 judges the bytes (pattern streams, child-side input
// hash, end-of-file timing on the interposed event log, text variants).

use crate::comm::{self, Entry, Xcfg, Xres};
use crate::common::pat_vec;
use crate::ilog::{self, k, Ev};
use crate::json::J;
use crate::rng::Rng;
use crate::run::{self, Ctx};
use std::io::ErrorKind;

pub struct Which {
    pub c01: bool,
    pub c02: bool,
}

const CAPS: [i64; 6] = [4096, 8192, 16384, 65536, 262144, 1048576];

fn gen_cfg(ctx: &Ctx, rng: &mut Rng, text_entries: bool, in_pieces_ok: bool) -> (Xcfg, comm::ScriptInfo) {
    let cap = *rng.pick(&CAPS);
    let subset = rng.range(1, 7); // bit0 in, bit1 out, bit2 err
    let piped_in = subset & 1 != 0;
    let out_piped = subset & 2 != 0;
    let err_piped = subset & 4 != 0;
    let big = rng.chance(350);
    let input_len = if !piped_in { 0 } else if big && rng.chance(300) { rng.range(1 << 20, if ctx.quick() { 2 << 20 } else { 8 << 20 }) } else { comm::size_near(rng, cap as u64) };
    let si = comm::gen_script(rng, piped_in, cap as u64, input_len, big);
    let seed = rng.next() >> 1;
    let entry = if text_entries {
        *rng.pick(&[Entry::CommunicateStr, Entry::ReadString, Entry::ExecCapture, Entry::CommunicateBytes])
    } else {
        *rng.pick(&[Entry::CommunicateBytes, Entry::Start, Entry::ExecCapture, Entry::ExecCommunicate, Entry::Start, Entry::CommunicateBytes, Entry::PipelineCapture, Entry::PipelineCommunicate])
    };
    // a pipeline's capture/communicate always pipe stdout and stderr; the scripted child is its first command
    let pipeline = matches!(entry, Entry::PipelineCapture | Entry::PipelineCommunicate);
    let (out_piped, err_piped) = if pipeline { (true, true) } else { (out_piped, err_piped) };
    let err_merge = !pipeline && !err_piped && out_piped && rng.chance(150);
    let cfg = Xcfg {
        seed,
        script: si.script.clone(),
        input: if piped_in { Some(comm::input_for(seed, input_len as usize)) } else { None },
        out_piped,
        err_piped,
        err_merge,
        cap,
        entry,
        chain: vec![],
        short_rw: if rng.chance(400) { *rng.pick(&[50u32, 300, 900]) } else { 0 },
        delay_us: if rng.chance(300) { *rng.pick(&[50i64, 500]) } else { 0 },
        vclock: None,
        max_polls_after_deadline: -1,
        // logical runaway guard: every poll/read/write round moves at least one byte, retires a stream or fails, so the
        // number of calls is bounded by a small multiple of the bytes that can move at all; beyond it the interposer
        // fails the calls with a reserved errno and the exchange ends (a spinning parent is a verdict, not a timeout)
        ops_budget: 8 * (si.max_total as i64 + input_len as i64) + 20_000,
        stop_when_done: true,
        kill_after: false,
        eintr_permille: 0,
        route: comm::Route::default(),
    };
    let mut cfg = cfg;
    // the same exchange said differently: through a copy of the command, with a command appended to a pipeline that
    // already has its input, or with a time limit so far away that it never matters (30 days ... 50 years: beyond what
    // one poll() call can be asked to wait)
    cfg.route.via_clone = rng.chance(250);
    cfg.route.late_stage = pipeline && rng.chance(400);
    cfg.route.child_last = pipeline && cfg.input.is_some() && rng.chance(350);
    // (only small outputs go to the worker's own stdout/stderr files that way)
    cfg.route.leave_uncaptured_alone = matches!(entry, Entry::ExecCapture | Entry::ExecCommunicate) && si.out1 + si.out2 < 200_000 && rng.chance(400);
    // ... or from a process that has closed some of its own standard descriptors: the pipes of the exchange then get
    // the numbers 0..2 on the parent's side
    cfg.route.free_std = if rng.chance(150) { rng.range(1, 7) as u8 } else { 0 };
    // a signal handler of the caller may interrupt the parent's poll/read/write: the exchange then fails with
    // Interrupted (an honest outcome) - it never returns a shortened result as if it had completed
    cfg.eintr_permille = if rng.chance(120) { 30 } else { 0 };
    // ... or taken in pieces: reads that stop at a size limit (or time out after a few milliseconds) and are resumed,
    // with the input still under way and the child's output piling up in between
    if in_pieces_ok && cfg.chain.is_empty() && matches!(entry, Entry::Start | Entry::ExecCommunicate | Entry::PipelineCommunicate) && rng.chance(300) {
        let total = si.max_total as usize + 64;
        let piece = *rng.pick(&[1usize << 12, 1 << 14, 1 << 16, 100_000, 3000]);
        let timed = rng.chance(400);
        let mut chain = vec![];
        for _ in 0..(total / piece + 8).min(4000) {
            chain.push(comm::Limit { size: Some(piece), time: if timed { Some(std::time::Duration::from_millis(rng.range(1, 5))) } else { None } });
        }
        for _ in 0..64 {
            chain.push(comm::Limit { size: Some(1 << 22), time: if timed { Some(std::time::Duration::from_secs(3600)) } else { None } });
        }
        cfg.chain = chain;
    }
    if matches!(entry, Entry::Start | Entry::ExecCommunicate | Entry::PipelineCommunicate) && rng.chance(250) {
        let far = *rng.pick(&[30u64 * 86400, 365 * 86400, 50 * 365 * 86400]);
        cfg.chain = vec![comm::Limit { size: None, time: Some(std::time::Duration::from_secs(far)) }];
        cfg.route.time_first = rng.chance(500);
    }
    (cfg, si)
}

fn describe(cfg: &Xcfg, si: &comm::ScriptInfo) -> J {
    J::obj()
        .set("entry", J::s(&format!("{:?}", cfg.entry)))
        .set("family", J::s(si.family))
        .set("script", J::s(&cfg.script))
        .set("input_len", J::i(cfg.input.as_ref().map(|v| v.len() as i64).unwrap_or(-1)))
        .set("piped", J::s(&format!("in={} out={} err={}{}", cfg.input.is_some(), cfg.out_piped, cfg.err_piped, if cfg.err_merge { " (stderr merged into stdout)" } else { "" })))
        .set("pipe_capacity", J::i(cfg.cap))
        .set("short_rw_permille", J::i(cfg.short_rw as i64))
        .set("delay_us", J::i(cfg.delay_us))
        .set("route", J::s(&format!("{:?}", cfg.route)))
        .set("limits", J::s(&format!("{:?}", cfg.chain)))
}

fn readiness_signature(evs: &[Ev]) -> u64 {
    // run-length compressed sequence of (in,out,err) ready triples seen by the parent
    let mut h = crate::common::FNV_INIT;
    let mut last = u64::MAX;
    for e in evs {
        if e.kind == k::POLL && e.child == 0 && e.ret >= 0 {
            let r = e.a[2] as u64;
            let t = ((r & 0xffff) != 0) as u64 | (((r >> 16) & 0xffff) != 0) as u64 * 2 | (((r >> 32) & 0xffff) != 0) as u64 * 4;
            if t != last {
                h = crate::common::fnv_update(h, &[t as u8]);
                last = t;
            }
        }
    }
    h
}

fn judge_c01(ctx: &mut Ctx, cfg: &Xcfg, si: &comm::ScriptInfo, x: &Xres) {
    let w = |extra: J| describe(cfg, si).set("detail", extra).set("events_tail", J::arr_s(&ilog::fmt_tail(&x.events, 25))).set("child_report", J::arr_s(&x.report));
    if let Some(c) = &x.cert {
        let role = if cfg.entry == Entry::ExecCapture { "capture" } else { "communicate" };
        ctx.violation(
            &format!("C01/deadlock/{}/{}/{}", role, si.family, c.shape()),
            "the exchange deadlocked: the parent is blocked while the child is blocked on a pipe only the parent can serve",
            w(run::cert_json(c)),
        );
        return;
    }
    if let Some(p) = &x.panic {
        ctx.violation(&format!("C01/panic/{:?}", cfg.entry), "the exchange panicked", w(J::s(p)));
        return;
    }
    if x.budget_hit {
        ctx.violation(
            &format!("C01/spin/op-budget/{}", si.family),
            "the parent keeps issuing poll/read/write calls far beyond what the bytes exchanged can account for: it spins instead of finishing",
            w(J::s(&format!("budget {} calls", cfg.ops_budget))),
        );
        return;
    }
    if x.hard_timeout {
        ctx.inconclusive("exchange ended by the wall-clock watchdog without a certificate", describe(cfg, si));
        return;
    }
    for r in &x.reads {
        if r.ev_end > r.ev_start && !x.overflow {
            if let Some(s) = comm::spin_check(&x.events[r.ev_start.min(x.events.len())..r.ev_end.min(x.events.len())]) {
                ctx.violation(&format!("C01/spin/{}", si.family), &format!("the parent spins: {}", s), w(J::Null));
                return;
            }
        }
    }
    ctx.count("exchanges_terminated", 1);
}

fn judge_c02(ctx: &mut Ctx, cfg: &Xcfg, si: &comm::ScriptInfo, x: &Xres) {
    if x.cert.is_some() || x.panic.is_some() || x.hard_timeout || x.launch_error.is_some() {
        ctx.count("exchanges_not_judged(did not complete)", 1);
        return;
    }
    let w = |extra: J| describe(cfg, si).set("detail", extra).set("child_report", J::arr_s(&x.report)).set("events_tail", J::arr_s(&ilog::fmt_tail(&x.events, 20)));
    let r = match x.reads.first() {
        Some(r) => r,
        None => return,
    };
    let wrote1 = x.child_wrote(1);
    let wrote2 = x.child_wrote(2);
    let mut exp_out: Vec<u8> = if cfg.err_merge { vec![] } else { pat_vec(cfg.seed, 1, 0, wrote1 as usize) };
    if matches!(cfg.entry, Entry::PipelineCapture | Entry::PipelineCommunicate) {
        // the second command copies its input and appends [1:len:hash of what it saw]
        if !cfg.route.child_last {
            let t = format!("[1:{}:{:016x}]", exp_out.len(), crate::common::fnv(&exp_out));
            exp_out.extend_from_slice(t.as_bytes());
        }
        if cfg.route.late_stage {
            let t = format!("[2:{}:{:016x}]", exp_out.len(), crate::common::fnv(&exp_out));
            exp_out.extend_from_slice(t.as_bytes());
        }
    }
    let exp_err = pat_vec(cfg.seed, 2, 0, wrote2 as usize);
    let text = r.out.is_none() && r.err.is_none() && (r.out_str.is_some() || r.err_str.is_some() || matches!(cfg.entry, Entry::CommunicateStr | Entry::ReadString));
    let aborted = x.budget_hit || (!r.ok && r.errno == Some(crate::plan::ABORT_ERRNO));
    if aborted {
        // the monitor ended a runaway exchange (C01's matter); what C02 can still say: was end-of-file ever sent?
        eof_order_check(ctx, cfg, x, &w);
        return;
    }
    if x.reads.iter().any(|r| !r.ok && r.err_kind == Some(ErrorKind::Interrupted)) && cfg.eintr_permille > 0 {
        ctx.count("exchanges_ended_by_an_injected_interruption(honest error, not judged further)", 1);
        // what the error carries must still be a prefix of what the child wrote
        if let Some(o) = &r.out {
            if !cfg.err_merge && !matches!(cfg.entry, Entry::PipelineCapture | Entry::PipelineCommunicate) && pat_vec(cfg.seed, 1, 0, o.len()) != *o {
                ctx.violation("C02/capture-on-error-not-a-prefix", "output carried by the Interrupted error is not a prefix of what the child wrote", w(J::Null));
            }
        }
        return;
    }
    if !r.ok {
        // an error is a legitimate outcome only when the child closed its stdin before taking all the input (EPIPE)
        let epipe = r.err_kind == Some(ErrorKind::BrokenPipe);
        let child_in = x.child_in().map(|c| c.0).unwrap_or(0);
        let input_len = cfg.input.as_ref().map(|v| v.len() as u64).unwrap_or(0);
        if epipe && (si.closes_stdin_early || child_in < input_len) {
            ctx.count("epipe_outcomes", 1);
            // whatever was captured must be a prefix of what the child wrote
            if let Some(o) = &r.out {
                if !cfg.err_merge && !exp_out.starts_with(o) && !pat_vec(cfg.seed, 1, 0, o.len()).eq(o) {
                    ctx.violation("C02/capture-on-error-not-a-prefix", "output captured before the error is not a prefix of what the child wrote", w(J::Null));
                }
            }
        } else {
            ctx.violation(
                &format!("C02/unexpected-error/{:?}", r.err_kind),
                &format!("the exchange failed with {:?} (errno {:?}) although the child took all input", r.err_kind, r.errno),
                w(J::Null),
            );
        }
        return;
    }
    ctx.count("exchanges_verified", 1);
    // ---- absent streams
    if !text {
        if r.out.is_some() != cfg.out_piped && cfg.entry != Entry::ExecCapture {
            ctx.violation("C02/absent-stream/stdout", &format!("stdout piped={} but reported as {}", cfg.out_piped, if r.out.is_some() { "present" } else { "absent" }), w(J::Null));
        }
        if r.err.is_some() != (cfg.err_piped && !cfg.err_merge) && cfg.entry != Entry::ExecCapture {
            ctx.violation("C02/absent-stream/stderr", &format!("stderr piped={} but reported as {}", cfg.err_piped, if r.err.is_some() { "present" } else { "absent" }), w(J::Null));
        }
    }
    // ---- output bytes, all reads concatenated (chains without limits are single reads)
    let got_out = x.cat_out();
    let got_err = x.cat_err();
    let first_diff = |a: &[u8], b: &[u8]| (0..a.len().max(b.len())).find(|&i| a.get(i) != b.get(i)).unwrap_or(0);
    if !text {
        if cfg.out_piped && !cfg.err_merge {
            ctx.count("stdout_bytes_verified", exp_out.len() as i64);
            if got_out != exp_out {
                let swapped = got_out == exp_err && !exp_err.is_empty();
                ctx.violation(
                    if swapped { "C02/streams-swapped" } else { "C02/stdout-bytes" },
                    &format!("stdout: got {} bytes, the child wrote {}; first difference at offset {}", got_out.len(), exp_out.len(), first_diff(&got_out, &exp_out)),
                    w(J::Null),
                );
            }
        }
        if cfg.out_piped && cfg.err_merge {
            // both streams arrive on one pipe: lengths must add up and each stream's bytes must appear in order
            ctx.count("merged_bytes_verified", (wrote1 + wrote2) as i64);
            if got_out.len() as u64 != wrote1 + wrote2 {
                ctx.violation("C02/merged-length", &format!("merged stream: got {} bytes, child wrote {}+{}", got_out.len(), wrote1, wrote2), w(J::Null));
            }
        }
        if cfg.err_piped && !cfg.err_merge {
            ctx.count("stderr_bytes_verified", exp_err.len() as i64);
            if got_err != exp_err {
                ctx.violation("C02/stderr-bytes", &format!("stderr: got {} bytes, the child wrote {}; first difference at offset {}", got_err.len(), exp_err.len(), first_diff(&got_err, &exp_err)), w(J::Null));
            }
        }
        if wrote1 > cfg.cap as u64 && wrote2 > cfg.cap as u64 && cfg.out_piped && cfg.err_piped {
            ctx.count("exchanges_with_both_streams_above_capacity", 1);
        }
    }
    // ---- text variants: lossy decoding of the byte result
    if let Some(s) = &r.out_str {
        ctx.count("text_results_verified", 1);
        if cfg.out_piped && !cfg.err_merge && *s != String::from_utf8_lossy(&exp_out) {
            ctx.violation("C02/text-variant/stdout", "the text result differs from the lossy UTF-8 decoding of the bytes the child wrote", w(J::Null));
        }
    }
    if let Some(s) = &r.err_str {
        if cfg.err_piped && !cfg.err_merge && *s != String::from_utf8_lossy(&exp_err) {
            ctx.violation("C02/text-variant/stderr", "the text result (stderr) differs from the lossy UTF-8 decoding of the bytes the child wrote", w(J::Null));
        }
    }
    // ---- input: exactly once, in order, then EOF
    // (when a pass-through command sits in front of the child, the child receives the input plus that command's trailer)
    let inp_eff: Option<Vec<u8>> = cfg.input.as_ref().map(|i| {
        let mut v = i.clone();
        if cfg.route.child_last {
            v.extend_from_slice(format!("[0:{}:{:016x}]", i.len(), crate::common::fnv(i)).as_bytes());
        }
        v
    });
    if let Some(inp) = &inp_eff {
        if !x.child_done() {
            // the child was still working through its script when the harness had to end it: its report is incomplete
            ctx.count("inputs_not_judged(child did not finish its script)", 1);
        } else if let Some((len, h, eof)) = x.child_in() {
            ctx.count("input_bytes_verified", len as i64);
            if si.reads_all {
                if len != inp.len() as u64 || h != comm::hash(inp) {
                    ctx.violation("C02/input-bytes", &format!("the child received {} bytes (hash {:x}), the input has {} bytes (hash {:x})", len, h, inp.len(), comm::hash(inp)), w(J::Null));
                } else if !eof {
                    ctx.violation("C02/no-eof", "the child never saw end-of-file on its stdin", w(J::Null));
                }
            } else if len as usize <= inp.len() && h != comm::hash(&inp[..len as usize]) {
                ctx.violation("C02/input-bytes", "what the child read is not a prefix of the input", w(J::Null));
            }
        } else if si.reads_all && x.child_done() {
            ctx.violation("C02/input-bytes", "the child reports no input at all", w(J::Null));
        }
        // behavioural: the child kept writing until it saw EOF on stdin
        if let Some(gave_up) = x.w_gave_up() {
            ctx.count("eof_while_output_flows_probes", 1);
            if gave_up {
                ctx.violation("C02/eof-delayed", "the child wrote 64 MiB without seeing end-of-file on stdin: stdin was not closed right after the last input byte", w(J::Null));
            }
        }
        eof_order_check(ctx, cfg, x, &w);
    }
    if x.short_fired > 0 {
        ctx.count("short_read_write_injections_fired", x.short_fired as i64);
    }
}

/// Order check on the interposed log: close(stdin) must follow the write that completes the input within the same
/// round (no further poll in between); for an empty input at most one poll round may precede the close.
fn eof_order_check(ctx: &mut Ctx, cfg: &Xcfg, x: &Xres, w: &dyn Fn(J) -> J) {
    let inp = match &cfg.input {
        Some(i) => i,
        None => return,
    };
    if x.fds.0 < 0 || x.overflow {
        return;
    }
    let fd = x.fds.0 as i64;
    // where the communicate phase starts: the first poll/write/read after the launch
    let start = x.events.iter().position(|e| e.child == 0 && (e.kind == k::POLL || (e.kind == k::WRITE && e.a[0] == fd))).unwrap_or(x.events.len());
    let mut total = 0u64;
    let mut done_at: Option<usize> = if inp.is_empty() { Some(start.saturating_sub(1)) } else { None };
    if !inp.is_empty() {
        for (i, e) in x.events.iter().enumerate() {
            if e.child == 0 && e.kind == k::WRITE && e.a[0] == fd && e.ret > 0 {
                total += e.ret as u64;
                if total == inp.len() as u64 {
                    done_at = Some(i);
                    break;
                }
            }
        }
    }
    let i = match done_at {
        Some(i) => i,
        None => return,
    };
    ctx.count("eof_order_checks", 1);
    let allowed_polls = if inp.is_empty() { 1 } else { 0 };
    let mut polls = 0;
    let mut reads = 0;
    let mut closed = false;
    for e in x.events.iter().skip(i + 1) {
        if e.child != 0 {
            continue;
        }
        if e.kind == k::CLOSE && e.a[0] == fd {
            closed = true;
            break;
        }
        if e.kind == k::POLL {
            polls += 1;
        }
        if e.kind == k::READ {
            reads += 1;
        }
    }
    if !closed || polls > allowed_polls || reads > 2 + 2 * allowed_polls {
        ctx.violation(
            if inp.is_empty() { "C02/eof-not-immediate/empty-input" } else { "C02/eof-not-immediate" },
            &format!(
                "after the last input byte was written ({} bytes of input) stdin was {} ({} poll(s), {} read(s) in between)",
                inp.len(),
                if closed { "closed late" } else { "never closed during the exchange" },
                polls,
                reads
            ),
            w(J::Null),
        );
    }
}

fn special_inputs(rng: &mut Rng) -> Vec<u8> {
    match rng.below(6) {
        0 => vec![],
        1 => vec![0u8; rng.range(1, 5000) as usize],
        2 => (0..rng.range(1, 9000)).map(|_| rng.range(0x80, 0xff) as u8).collect(),
        3 => {
            // valid multi-byte text whose sequences straddle 4096-byte chunk boundaries
            let mut v = vec![b'a'; 4094 + rng.below(4) as usize];
            for _ in 0..3000 {
                v.extend_from_slice("é𝄞".as_bytes());
            }
            v
        }
        4 => {
            // truncated multi-byte sequence at the very end
            let mut v = "text𝄞".as_bytes().to_vec();
            v.pop();
            v
        }
        _ => {
            let n = rng.range(1, 70000) as usize;
            rng.bytes(n)
        }
    }
}

pub fn run(ctx: &mut Ctx, which: Which) {
    let n = ctx.n(1600, 60_000);
    ctx.family("exchanges", n, |ctx, rng, i| {
        let (cfg, si) = gen_cfg(ctx, rng, false, which.c01 && !which.c02);
        let x = comm::exchange(ctx, &cfg);
        ctx.count("exchanges", 1);
        ctx.count(&format!("family.{}", si.family), 1);
        let moved = x.events.iter().filter(|e| e.child == 0 && (e.kind == k::READ || e.kind == k::WRITE) && e.ret > 0).map(|e| e.ret).sum::<i64>();
        ctx.count("bytes_moved", moved);
        ctx.distinct_h(readiness_signature(&x.events) ^ crate::common::fnv(si.family.as_bytes()));
        if i < 3 {
            ctx.sample(describe(&cfg, &si));
        }
        if which.c01 {
            judge_c01(ctx, &cfg, &si, &x);
        }
        if which.c02 {
            judge_c02(ctx, &cfg, &si, &x);
        }
    });
    if which.c01 {
        // "once the child has closed its streams ... the call returns": the child closes stdout and stderr and then
        // lingers for 8 s; the exchange must be over while it is still alive (ordering of events, not a timeout)
        let nl = ctx.n(96, 1500);
        ctx.family("closes-streams-then-lingers", nl, |ctx, rng, _i| {
            let seed = rng.next() >> 1;
            let entry = *rng.pick(&[Entry::PipelineCommunicate, Entry::PipelineCommunicate, Entry::CommunicateBytes, Entry::Start, Entry::ExecCommunicate]);
            let piped_in = rng.chance(400);
            let input_len = if piped_in { rng.range(0, 100_000) } else { 0 };
            let script = format!("w1:{}:{},w2:{}:{},{}c1,c2,s8000,x0", rng.range(0, 100_000), comm::chunk(rng), rng.range(0, 100_000), comm::chunk(rng), if piped_in { "R," } else { "" });
            let cfg = Xcfg {
                seed,
                script: script.clone(),
                input: if piped_in { Some(comm::input_for(seed, input_len as usize)) } else { None },
                out_piped: true,
                err_piped: true,
                err_merge: false,
                cap: 65536,
                entry,
                chain: vec![],
                short_rw: 0,
                delay_us: 0,
                vclock: None,
                max_polls_after_deadline: -1,
                ops_budget: 1,
                stop_when_done: true,
                kill_after: true,
                eintr_permille: 0,
                route: comm::Route::default(),
            };
            let si = comm::ScriptInfo { script, reads_all: piped_in, family: "closes-streams-then-lingers", ..Default::default() };
            let x = comm::exchange(ctx, &cfg);
            ctx.count("exchanges", 1);
            ctx.distinct_h(crate::common::fnv(cfg.script.as_bytes()) ^ entry as u64);
            judge_c01(ctx, &cfg, &si, &x);
            if x.cert.is_some() || x.panic.is_some() || x.hard_timeout || x.budget_hit || x.launch_error.is_some() {
                return;
            }
            // the scripted child is the first process forked
            if let Some((pid, st)) = x.at_return.first() {
                ctx.count("lingering_children_checked_at_return", 1);
                let closed_both = x.report.iter().any(|l| l.starts_with("c 2"));
                if closed_both && matches!(st, None | Some('Z')) {
                    ctx.violation(
                        &format!("C01/returned-only-after-child-exit/{:?}", entry),
                        "the child closed its stdout and stderr and then stayed alive for 8 s, but the exchange returned only after it had exited: something kept the parent from seeing end-of-file",
                        describe(&cfg, &si).set("child_pid", J::i(*pid as i64)).set("child_state_at_return", J::s(&format!("{:?}", st))).set("child_report", J::arr_s(&x.report)),
                    );
                }
            }
        });
    }
    if which.c01 {
        // capture()/communicate() of a pipeline whose later command cannot be started, while an earlier command is
        // already writing more to the shared stderr (or to its successor's pipe) than a pipe holds: the call returns the
        // error; it does not wait for a command that is waiting for somebody to read what the call itself still holds
        let nf = ctx.n(48, 600);
        ctx.family("pipeline-cannot-start-while-an-earlier-command-floods", nf, |ctx, rng, i| {
            run::begin_case();
            let dir = ctx.scratch("c01f");
            let seed = rng.next() >> 1;
            let flood = rng.range(70_000, 1_500_000);
            let stream = 1 + (i % 2);
            let script = format!("w{}:{}:{},x0", stream, flood, comm::chunk(rng));
            let first = subprocess::Exec::cmd(&ctx.vchild).args(&["io", &seed.to_string(), &script]).arg(dir.join("rep"));
            let n_mid = (i / 2) % 2;
            let mut cmds = vec![first];
            for j in 0..n_mid {
                cmds.push(subprocess::Exec::cmd(&ctx.vchild).args(&["stage", &j.to_string(), "1", "0", "0", "0", "0"]).arg(dir.join(format!("mid{}.rep", j))));
            }
            cmds.push(subprocess::Exec::cmd(dir.join("no-such-command")));
            let pl = subprocess::Pipeline::from_exec_iter(cmds);
            let how = (i / 4) % 3;
            let m = run::monitored(move || -> Result<String, String> {
                match how {
                    0 => pl.capture().map(|c| format!("{:?}", c.exit_status)).map_err(|e| e.to_string()),
                    1 => pl.communicate().map(|_| "communicator".to_string()).map_err(|e| e.to_string()),
                    _ => pl.stdin(vec![b'x'; 100_000]).capture().map(|c| format!("{:?}", c.exit_status)).map_err(|e| e.to_string()),
                }
            });
            ctx.count("pipelines_that_cannot_start_while_an_earlier_command_floods", 1);
            ctx.distinct(&format!("plflood|{}|{}|{}", stream, n_mid, how));
            let w = J::obj().set("first_command", J::s(&script)).set("commands", J::i(n_mid as i64 + 2)).set("call", J::s(["capture", "communicate", "capture with input"][how as usize])).set("result", J::s(&format!("{:?}", m.result)));
            if let Some(c) = &m.cert {
                ctx.violation(&format!("C01/deadlock/pipeline-cannot-start/{}", ["capture", "communicate", "capture-with-input"][how as usize]), "the pipeline could not start its last command and the call did not return: it waits for an earlier command that is blocked writing to a pipe whose read end the call holds", w.set("detail", run::cert_json(c)));
            } else if m.hard_timeout {
                ctx.inconclusive("failing pipeline start did not end (no certificate)", w);
            } else if let Some(Ok(r)) = &m.result {
                ctx.violation("C01/pipeline-cannot-start/no-error", &format!("the last command does not exist but the call reported {}", r), w);
            }
            run::end_case();
        });
    }
    if which.c01 {
        // "all subsets of piped streams" includes the empty one: an exchange that has no stream (left) to service - nothing
        // piped at all, the pipes already consumed by an earlier call, one more read() after an exchange that had only
        // stdin to deliver - has nothing to wait for and returns.  A caller stuck in a wait that no descriptor and no
        // timeout can end is a node of the wait-for graph that cannot proceed: a certificate, not a timeout.
        let ne = ctx.n(60, 900);
        ctx.family("nothing-left-to-service", ne, |ctx, rng, i| {
            run::begin_case();
            let dir = ctx.scratch("c01e");
            let seed = rng.next() >> 1;
            let n1 = rng.range(0, 3000);
            let code = rng.range(0, 5);
            let rep = dir.join("rep");
            let scen = i % 6;
            let reads_in = matches!(scen, 3 | 4);
            let script = format!("{}w1:{}:512,w2:9:9,x{}", if reads_in { "R," } else { "" }, n1, code);
            let input = comm::input_for(seed, rng.range(0, 70_000) as usize);
            let argv: Vec<std::ffi::OsString> = vec![ctx.vchild.clone().into_os_string(), "io".into(), seed.to_string().into(), script.clone().into(), rep.clone().into_os_string()];
            let exec = || subprocess::Exec::cmd(&argv[0]).args(&argv[1..]);
            let null = || subprocess::Redirection::File(std::fs::OpenOptions::new().read(true).write(true).open("/dev/null").unwrap());
            let m = run::monitored(|| -> Result<String, String> {
                let es = |e: std::io::Error| e.to_string();
                let ps = |e: subprocess::PopenError| e.to_string();
                match scen {
                    0 => {
                        // capture() with every stream sent elsewhere
                        let c = exec().stdin(subprocess::NullFile).stdout(subprocess::NullFile).stderr(subprocess::NullFile).capture().map_err(ps)?;
                        Ok(format!("{}/{}/{:?}", c.stdout.len(), c.stderr.len(), c.exit_status))
                    }
                    1 => {
                        // Popen::communicate_bytes with nothing piped
                        let mut p = subprocess::Popen::create(&argv, subprocess::PopenConfig { stdin: null(), stdout: null(), stderr: null(), ..Default::default() }).map_err(ps)?;
                        let r = p.communicate_bytes(None).map_err(es)?;
                        let st = p.wait().map_err(ps)?;
                        Ok(format!("{:?}/{:?}", r, st))
                    }
                    2 => {
                        // a second communicate after the first has consumed the pipes
                        let mut p = subprocess::Popen::create(&argv, subprocess::PopenConfig { stdout: subprocess::Redirection::Pipe, stderr: null(), ..Default::default() }).map_err(ps)?;
                        let first = p.communicate_bytes(None).map_err(es)?;
                        let second = p.communicate_bytes(None).map_err(es)?;
                        let st = p.wait().map_err(ps)?;
                        Ok(format!("{}/{:?}/{:?}", first.0.map(|v| v.len()).unwrap_or(usize::MAX), second, st))
                    }
                    3 => {
                        // only stdin piped: one read() delivers the input, the next one has nothing to do
                        let mut p = subprocess::Popen::create(&argv, subprocess::PopenConfig { stdin: subprocess::Redirection::Pipe, stdout: null(), stderr: null(), ..Default::default() }).map_err(ps)?;
                        let mut c = p.communicate_start(Some(input.clone()));
                        let a = c.read().map_err(|e| e.error.to_string())?;
                        let b = c.read().map_err(|e| e.error.to_string())?;
                        drop(c);
                        let st = p.wait().map_err(ps)?;
                        Ok(format!("{:?}/{:?}/{:?}", a, b, st))
                    }
                    4 => {
                        // the same through Exec::communicate
                        let mut c = exec().stdin(input.clone()).stdout(subprocess::NullFile).stderr(subprocess::NullFile).communicate().map_err(ps)?;
                        let a = c.read().map_err(|e| e.error.to_string())?;
                        let b = c.read().map_err(|e| e.error.to_string())?;
                        Ok(format!("{:?}/{:?}", a, b))
                    }
                    _ => {
                        // Exec::communicate with nothing piped and nothing to send
                        let mut c = exec().stdin(subprocess::NullFile).stdout(subprocess::NullFile).stderr(subprocess::NullFile).communicate().map_err(ps)?;
                        let a = c.read().map_err(|e| e.error.to_string())?;
                        Ok(format!("{:?}", a))
                    }
                }
            });
            ctx.count("exchanges_with_no_stream_left_to_service", 1);
            ctx.distinct(&format!("nothing|{}|{}", scen, n1 % 3));
            let w = J::obj().set("scenario", J::i(scen as i64)).set("script", J::s(&script));
            if let Some(c) = &m.cert {
                ctx.violation(&format!("C01/deadlock/nothing-to-service/{}", scen), "an exchange with no stream left to service did not return: the caller waits where no descriptor and no timeout can end the wait", w.set("detail", run::cert_json(c)));
            } else if m.hard_timeout {
                ctx.inconclusive("exchange with nothing to service did not end (no certificate)", w);
            } else {
                let expect = match scen {
                    0 => format!("0/0/Exited({})", code),
                    1 => format!("(None, None)/Exited({})", code),
                    2 => format!("{}/(None, None)/Exited({})", n1, code),
                    3 => format!("(None, None)/(None, None)/Exited({})", code),
                    4 => "(None, None)/(None, None)".to_string(),
                    _ => "(None, None)".to_string(),
                };
                match m.result {
                    Some(Ok(got)) if got == expect => {}
                    Some(other) => ctx.violation(&format!("C01/nothing-to-service/result/{}", scen), &format!("expected {}, got {:?}", expect, other), w),
                    None => ctx.violation(&format!("C01/nothing-to-service/panic/{}", scen), &format!("the call panicked: {:?}", m.panic), w),
                }
            }
            run::end_case();
        });
    }
    if which.c01 {
        // "all interleavings" includes other threads of the caller that start long-running, unrelated commands while
        // an exchange is being set up: the exchange is over when its own child is done, not when those commands exit.
        // Ordering, not timing: every unrelated command started so far lives for 30 s and is still running when a
        // correct exchange returns.
        let nc = ctx.n(48, 1200);
        ctx.family("concurrent-with-unrelated-spawns", nc, |ctx, rng, i| {
            use std::sync::atomic::{AtomicBool, Ordering::SeqCst};
            use std::sync::{Arc, Mutex};
            run::begin_case();
            let dir = ctx.scratch("c01c");
            // widen the windows between creating a descriptor, flagging it and forking
            crate::plan::seed(rng.next());
            crate::plan::add(crate::plan::Rule { kind: k::PIPE, scope: crate::plan::SCOPE_PARENT, nth: 0, fd: -1, act: crate::plan::ACT_DELAY_AFTER, val: -400, prob: 400 });
            let nx = rng.range(2, 5) as usize;
            let nl = rng.range(1, 3) as usize;
            let rounds = rng.range(3, 8) as usize;
            let lingerers: Arc<Mutex<Vec<i32>>> = Arc::new(Mutex::new(vec![]));
            let stop = Arc::new(AtomicBool::new(false));
            let vchild = ctx.vchild.clone();
            let seeds: Vec<u64> = (0..nx * rounds).map(|_| rng.next() >> 1).collect();
            let dir2 = dir.clone();
            let m = run::monitored(|| {
                let mut hs = vec![];
                for _ in 0..nl {
                    let (lingerers, stop, vchild) = (lingerers.clone(), stop.clone(), vchild.clone());
                    hs.push(std::thread::spawn(move || {
                        ilog::set_subject(true);
                        let mut held = vec![];
                        while !stop.load(SeqCst) && held.len() < 40 {
                            if let Ok(p) = subprocess::Popen::create(&[vchild.clone().into_os_string(), "sleep".into(), "30000".into()], subprocess::PopenConfig { detached: true, ..Default::default() }) {
                                if let Some(pid) = p.pid() {
                                    lingerers.lock().unwrap().push(pid as i32);
                                }
                                held.push(p);
                            }
                            std::thread::sleep(std::time::Duration::from_micros(300));
                        }
                        ilog::set_subject(false);
                        held
                    }));
                }
                let mut xs = vec![];
                for t in 0..nx {
                    let (lingerers, vchild, dir2) = (lingerers.clone(), vchild.clone(), dir2.clone());
                    let seeds: Vec<u64> = seeds[t * rounds..(t + 1) * rounds].to_vec();
                    xs.push(std::thread::spawn(move || {
                        ilog::set_subject(true);
                        let mut bad: Vec<String> = vec![];
                        let mut done = 0u64;
                        for (r, seed) in seeds.iter().enumerate() {
                            let n1 = 1 + seed % 5000;
                            let rep = dir2.join(format!("x{}-{}.rep", t, r));
                            let input = comm::input_for(*seed, (seed % 3000) as usize);
                            let e = subprocess::Exec::cmd(&vchild).args(&["io", &seed.to_string(), &format!("R,w1:{}:512,w2:77:7,x0", n1)]).arg(&rep).stdin(input);
                            let res = if r % 2 == 0 { e.capture().map(|c| c.stdout.len()) } else { e.communicate().and_then(|mut c| c.read().map(|(o, _)| o.map(|v| v.len()).unwrap_or(0)).map_err(|e| e.error.into())) };
                            // at this moment every unrelated command started so far is still running (each lives 30 s)
                            let snapshot: Vec<i32> = lingerers.lock().unwrap().clone();
                            let gone: Vec<i32> = ilog::quiet(|| snapshot.iter().cloned().filter(|p| !matches!(crate::inspect::proc_state(*p), Some('S') | Some('R') | Some('D'))).collect());
                            if !gone.is_empty() {
                                bad.push(format!("exchange {} of thread {} ({:?}) returned only after unrelated commands {:?} had exited", r, t, res.as_ref().map_err(|e| e.to_string()), gone));
                                break;
                            }
                            match res {
                                Ok(n) if n as u64 == n1 => done += 1,
                                other => bad.push(format!("exchange {} of thread {}: expected {} bytes of output, got {:?}", r, t, n1, other.map_err(|e| e.to_string()))),
                            }
                        }
                        ilog::set_subject(false);
                        (bad, done)
                    }));
                }
                let results: Vec<(Vec<String>, u64)> = xs.into_iter().map(|h| h.join().unwrap_or((vec!["exchange thread panicked".into()], 0))).collect();
                stop.store(true, SeqCst);
                let held: Vec<Vec<subprocess::Popen>> = hs.into_iter().map(|h| h.join().unwrap_or_default()).collect();
                (results, held)
            });
            ctx.count("exchange_storms", 1);
            let w = |extra: J| J::obj().set("exchange_threads", J::i(nx as i64)).set("spawning_threads", J::i(nl as i64)).set("rounds", J::i(rounds as i64)).set("detail", extra);
            if let Some(c) = &m.cert {
                ctx.violation("C01/deadlock/concurrent", "an exchange deadlocked while other threads were spawning", w(run::cert_json(c)));
            } else if let Some((results, held)) = m.result {
                ctx.count("unrelated_commands_started_meanwhile", held.iter().map(|v| v.len() as i64).sum());
                for (bad, done) in &results {
                    ctx.count("exchanges", *done as i64);
                    ctx.count("exchanges_terminated", *done as i64);
                    if let Some(b) = bad.first() {
                        let sig = if b.contains("only after unrelated") { "C01/returned-only-after-unrelated-commands-exited" } else { "C01/concurrent-exchange-wrong" };
                        ctx.violation(sig, "with other threads of the caller starting unrelated long-running commands, an exchange did not finish when its own child was done", w(J::arr_s(bad)));
                        break;
                    }
                }
                drop(held);
            } else if let Some(p) = &m.panic {
                ctx.violation("C01/panic/concurrent", "panic", w(J::s(p)));
            }
            ctx.distinct(&format!("conc|{}|{}|{}|{}", nx, nl, rounds, i));
            run::end_case();
        });
    }
    if which.c02 {
        // input delivered exactly once also when the exchange is interrupted by time limits and resumed
        let nr = ctx.n(200, 6000);
        ctx.family("resumed-after-timeouts", nr, |ctx, rng, _i| {
            let seed = rng.next() >> 1;
            let cap = 65536u64;
            let input = comm::input_for(seed, rng.range(cap * 2, cap * 6) as usize);
            let n1 = rng.range(0, 150_000);
            let mut chain = vec![];
            for _ in 0..rng.range(1, 6) {
                chain.push(comm::Limit { size: None, time: Some(std::time::Duration::from_millis(*rng.pick(&[1u64, 5, 10, 50]))) });
            }
            for _ in 0..5000 {
                chain.push(comm::Limit { size: Some(1 << 22), time: Some(std::time::Duration::from_secs(3600)) });
            }
            let cfg = Xcfg {
                seed,
                script: format!("s{},r{},s{},R,w1:{}:4096,w2:{}:100,x0", rng.range(8, 25), rng.range(1, 70000), rng.range(0, 15), n1, rng.range(0, 3000)),
                input: Some(input.clone()),
                out_piped: true,
                err_piped: true,
                err_merge: false,
                cap: cap as i64,
                entry: if rng.chance(700) { Entry::Start } else { Entry::ExecCommunicate },
                chain,
                short_rw: if rng.chance(300) { 300 } else { 0 },
                delay_us: 0,
                vclock: Some((rng.range(2, 4) as i64, 0)),
                max_polls_after_deadline: -1,
                ops_budget: 8 * (n1 as i64 + input.len() as i64) + 200_000,
                stop_when_done: true,
                kill_after: false,
        eintr_permille: 0,
        route: comm::Route::default(),
            };
            let x = comm::exchange(ctx, &cfg);
            ctx.count("exchanges", 1);
            ctx.distinct_h(crate::common::fnv(cfg.script.as_bytes()) ^ seed);
            if x.cert.is_some() || x.panic.is_some() || x.hard_timeout {
                return;
            }
            let timeouts = x.reads.iter().filter(|r| !r.ok && r.err_kind == Some(ErrorKind::TimedOut)).count();
            ctx.count("resumed_exchanges", 1);
            ctx.count("timeouts_before_resuming", timeouts as i64);
            let w = J::obj().set("script", J::s(&cfg.script)).set("input_len", J::i(input.len() as i64)).set("timed_out_reads", J::i(timeouts as i64)).set("reads", J::i(x.reads.len() as i64)).set("child_report", J::arr_s(&x.report));
            let done = x.reads.last().map(|r| r.ok).unwrap_or(false) && x.child_done();
            if !done {
                return;
            }
            match x.child_in() {
                Some((len, h, eof)) => {
                    ctx.count("input_bytes_verified", len as i64);
                    if len != input.len() as u64 || h != comm::hash(&input) {
                        ctx.violation("C02/input-bytes/resumed", &format!("after {} timed-out and resumed reads the child received {} bytes, the input has {} (not delivered exactly once)", timeouts, len, input.len()), w);
                    } else if !eof {
                        ctx.violation("C02/no-eof/resumed", "the child never saw end-of-file on its stdin", w);
                    }
                }
                None => {}
            }
            let got = x.cat_out();
            let exp = pat_vec(seed, 1, 0, x.child_wrote(1) as usize);
            if got != exp {
                ctx.violation("C02/stdout-bytes/resumed", &format!("stdout pieces of the resumed reads add up to {} bytes, the child wrote {}", got.len(), exp.len()), J::Null);
            }
        });
        // the cfg(windows) thread-based communicator, executed here over real pipes (unlimited read)
        if crate::win_comm::EXTRACTED {
            let nw = ctx.n(200, 6000);
            ctx.family("windows-variant", nw, |ctx, rng, _i| {
                let cap = 65536u64;
                let subset = rng.range(1, 7);
                let (piped_in, out_piped, err_piped) = (subset & 1 != 0, subset & 2 != 0, subset & 4 != 0);
                let input_len = if piped_in { comm::size_near(rng, cap) + if rng.chance(200) { 300_000 } else { 0 } } else { 0 };
                let big = rng.chance(300);
                let si = comm::gen_script(rng, piped_in, cap, input_len, big);
                if si.family == "writes-until-eof-seen" || si.family == "closes-stdin-early-then-writes" {
                    return; // (need the poll-based parent's EOF timing / EPIPE semantics; not meaningful for the thread-based variant here)
                }
                let seed = rng.next() >> 1;
                let input = if piped_in { Some(comm::input_for(seed, input_len as usize)) } else { None };
                let r = crate::props::c0304::win_exchange(ctx, seed, &si.script, input.clone(), out_piped, err_piped, &[None, None, None]);
                let (reads, report) = match r {
                    Some(x) => x,
                    None => return,
                };
                ctx.count("win_variant_exchanges", 1);
                let w = J::obj().set("script", J::s(&si.script)).set("family", J::s(si.family)).set("piped", J::s(&format!("in={} out={} err={}", piped_in, out_piped, err_piped))).set("child_report", J::arr_s(&report));
                let first = match reads.first() {
                    Some(f) => f,
                    None => return,
                };
                if !first.0 {
                    ctx.violation("C02/win-variant/error", "thread-based communicator: the exchange failed", w);
                    return;
                }
                if first.1.is_some() != out_piped || first.2.is_some() != err_piped {
                    ctx.violation("C02/win-variant/absent-stream", "thread-based communicator: a stream that was not piped is not reported as absent (or vice versa)", w);
                    return;
                }
                let wrote = |s: u8| -> usize {
                    let mut n = 0;
                    for l in &report {
                        let p: Vec<&str> = l.split(' ').collect();
                        if p[0] == "w" && p.len() >= 3 && p[1] == s.to_string() {
                            n = n.max(p[2].parse().unwrap_or(0));
                        }
                    }
                    n
                };
                let done = report.iter().any(|l| l == "done" || l.starts_with("exit "));
                if !done {
                    return;
                }
                let got1: Vec<u8> = reads.iter().flat_map(|r| r.1.clone().unwrap_or_default()).collect();
                let got2: Vec<u8> = reads.iter().flat_map(|r| r.2.clone().unwrap_or_default()).collect();
                if out_piped && got1 != pat_vec(seed, 1, 0, wrote(1)) {
                    ctx.violation("C02/win-variant/stdout-bytes", &format!("thread-based communicator: stdout has {} bytes, the child wrote {}", got1.len(), wrote(1)), w);
                    return;
                }
                if err_piped && got2 != pat_vec(seed, 2, 0, wrote(2)) {
                    ctx.violation("C02/win-variant/stderr-bytes", &format!("thread-based communicator: stderr has {} bytes, the child wrote {}", got2.len(), wrote(2)), w);
                    return;
                }
                ctx.count("win_variant_bytes_verified", (got1.len() + got2.len()) as i64);
                if let (Some(inp), true) = (&input, si.reads_all) {
                    if let Some(l) = report.iter().rev().find(|l| l.starts_with("in ")) {
                        let p: Vec<&str> = l.split(' ').collect();
                        let (len, h): (u64, u64) = (p[1].parse().unwrap_or(0), p[2].parse().unwrap_or(0));
                        if len != inp.len() as u64 || h != comm::hash(inp) || p[3] != "1" {
                            ctx.violation("C02/win-variant/input", "thread-based communicator: the child did not receive the input exactly once followed by end-of-file", w);
                        }
                    }
                }
                ctx.distinct(&format!("win|{}|{}", si.family, subset));
            });
        }
        // text variants and special byte strings (NUL, invalid UTF-8, sequences cut at chunk boundaries): cat-like child echoes the input
        let nt = ctx.n(400, 10_000);
        ctx.family("text-and-special-bytes", nt, |ctx, rng, _i| {
            let data = special_inputs(rng);
            let entry = *rng.pick(&[Entry::ReadString, Entry::ExecCapture, Entry::CommunicateBytes, Entry::CommunicateStr]);
            let data = if entry == Entry::CommunicateStr { String::from_utf8_lossy(&data).into_owned().into_bytes() } else { data };
            // the child copies stdin to stdout verbatim: use the stage mode with the identity map (a=1,b=0) and no trailer... the io script cannot echo raw input,
            // so the oracle here is: stdout pattern bytes contain NUL/invalid sequences by construction, and the input hash is checked child-side.
            let mut seed = rng.next() >> 1;
            if rng.chance(400) {
                // the child's output is valid text that stops at an arbitrary byte: the only decoding error is a sequence cut short at the very end
                seed = (seed & !0xFFFF) | crate::common::TEXT_SEED_MARK;
                ctx.count("outputs_that_are_text_cut_at_an_arbitrary_byte", 1);
            }
            let n1 = rng.range(1, 20000);
            let cfg = Xcfg {
                seed,
                script: format!("R,w1:{}:{},w2:{}:777,x0", n1, comm::chunk(rng), rng.range(0, 5000)),
                input: Some(data),
                out_piped: true,
                err_piped: true,
                err_merge: false,
                cap: 65536,
                entry,
                chain: vec![],
                short_rw: if rng.chance(500) { 300 } else { 0 },
                delay_us: 0,
                vclock: None,
                max_polls_after_deadline: -1,
                ops_budget: 8 * (n1 as i64 + 80_000) + 20_000,
                stop_when_done: true,
                kill_after: false,
        eintr_permille: 0,
        route: comm::Route::default(),
            };
            let si = comm::ScriptInfo { script: cfg.script.clone(), reads_all: true, family: "text-and-special-bytes", ..Default::default() };
            let x = comm::exchange(ctx, &cfg);
            ctx.count("exchanges", 1);
            ctx.distinct_h(crate::common::fnv(cfg.script.as_bytes()) ^ seed);
            judge_c02(ctx, &cfg, &si, &x);
        });
    }
}
