// C13 — pipelines connect stage i to stage i+1 and nothing else, however composed.
// C14 — a pipeline failing to start part-way cleans up and returns promptly.
// Stages are `vchild stage`: a non-commutative affine byte map plus a trailer recording
// what the stage saw, tagged stderr lines, optional lingering, a chosen exit code.

use crate::common::{fnv, pat_vec};
use crate::ilog::{self, k};
use crate::json::J;
use crate::rng::Rng;
use crate::run::{self, Ctx};
use crate::spawn;
use std::io::{Read, Write};
use std::os::unix::io::AsRawFd;
use std::path::{Path, PathBuf};
use subprocess::{Exec, ExitStatus, NullFile, Pipeline, Popen, PopenError, Redirection};

#[derive(Clone, Debug)]
struct Stage {
    a: u8,
    b: u8,
    nerr: u64,
    linger: u64,
    code: u32,
    take: u64, // 0 = read everything; otherwise stop reading after this many bytes and exit
    close_err: bool, // gives up stderr too before it lingers
}

fn stage_exec(ctx: &Ctx, i: usize, s: &Stage, dir: &Path) -> Exec {
    Exec::cmd(&ctx.vchild).args(&[
        "stage".to_string(),
        i.to_string(),
        s.a.to_string(),
        s.b.to_string(),
        s.nerr.to_string(),
        s.linger.to_string(),
        s.code.to_string(),
        dir.join(format!("stage{}.rep", i)).to_string_lossy().into_owned(),
        "0".to_string(),
        s.take.to_string(),
        if s.close_err { "1".to_string() } else { "0".to_string() },
    ])
}

/// A pass-through command (identity map, no trailer bookkeeping needed by the caller), built without a Ctx.
fn stage_exec_raw(vchild: &std::path::Path, j: usize, dir: &Path, attempt: usize) -> Exec {
    Exec::cmd(vchild).args(&["stage", &j.to_string(), "1", "0", "0", "0", "0"]).arg(dir.join(format!("cstage{}-{}.rep", attempt, j)))
}

fn expected_output(input: &[u8], stages: &[Stage]) -> Vec<u8> {
    let mut data = input.to_vec();
    for (i, s) in stages.iter().enumerate() {
        if s.take > 0 && (data.len() as u64) > s.take {
            data.truncate(s.take as usize);
        }
        let h = fnv(&data);
        let len = data.len();
        for x in data.iter_mut() {
            *x = x.wrapping_mul(s.a).wrapping_add(s.b);
        }
        data.extend_from_slice(format!("[{}:{}:{:016x}]", i, len, h).as_bytes());
    }
    data
}

fn expected_err_lines(stages: &[Stage]) -> Vec<String> {
    let mut v = vec![];
    for (i, s) in stages.iter().enumerate() {
        for j in 0..s.nerr {
            v.push(format!("E{}:{}", i, j));
        }
    }
    v.sort();
    v
}

/// Compose the stage sequence in a random shape; all shapes denote the same sequence.
type Setter = Option<Box<dyn FnOnce(Pipeline) -> Pipeline>>;

/// `pre_in` (configures the pipeline's stdin) may be applied to the leftmost sub-pipeline *before* composing,
/// `pre_out` (its stdout) to the rightmost sub-pipeline: what was configured must survive the composition.
fn compose(rng: &mut Rng, mut execs: Vec<Exec>, pre_in: &mut Setter, pre_out: &mut Setter, pre_err: &mut Setter) -> (Pipeline, String) {
    let n = execs.len();
    match rng.below(4) {
        0 => (Pipeline::from_exec_iter(execs), "from_exec_iter".into()),
        1 => {
            let mut it = execs.into_iter();
            let mut p = it.next().unwrap() | it.next().unwrap();
            for e in it {
                p = p | e;
            }
            (p, "a|b|c...".into())
        }
        _ => {
            // split into groups: first group >= 2, later groups are single commands or sub-pipelines
            let mut shape = String::new();
            let first = if n >= 4 { rng.range(2, (n - 2) as u64) as usize } else { 2.min(n) };
            let rest: Vec<Exec> = execs.split_off(first);
            let mut p = Pipeline::from_exec_iter(execs);
            shape.push_str(&format!("({})", first));
            if rng.chance(600) {
                if let Some(f) = pre_in.take() {
                    p = f(p);
                    shape.push_str("<in");
                }
            }
            // the shared stderr sink configured on the leftmost sub-pipeline must cover the commands appended later too
            if !rest.is_empty() && rng.chance(600) {
                if let Some(f) = pre_err.take() {
                    p = f(p);
                    shape.push_str("<err");
                }
            }
            let mut rest = rest.into_iter().collect::<Vec<_>>();
            while !rest.is_empty() {
                let take = if rest.len() >= 2 && rng.chance(600) { rng.range(2, rest.len() as u64) as usize } else { 1 };
                let tail = rest.split_off(take);
                if take == 1 {
                    p = p | rest.pop().unwrap();
                    shape.push_str("|1");
                } else {
                    let sub = if rng.chance(500) {
                        Pipeline::from_exec_iter(rest)
                    } else {
                        let mut it = rest.into_iter();
                        let mut q = it.next().unwrap() | it.next().unwrap();
                        for e in it {
                            q = q | e;
                        }
                        q
                    };
                    let mut sub = sub;
                    if tail.is_empty() && rng.chance(600) {
                        if let Some(f) = pre_out.take() {
                            sub = f(sub);
                            shape.push_str("|out>");
                        }
                    }
                    p = p | sub;
                    shape.push_str(&format!("|({})", take));
                }
                rest = tail;
            }
            (p, shape)
        }
    }
}

fn own_offset(fd: i32) -> i64 {
    unsafe { libc::syscall(libc::SYS_lseek, fd, 0, libc::SEEK_CUR) }
}

fn read_own_from(fd: i32, from: i64) -> Vec<u8> {
    let p = format!("/proc/self/fd/{}", fd);
    let mut v = vec![];
    if let Ok(mut f) = std::fs::File::open(p) {
        use std::io::Seek;
        let _ = f.seek(std::io::SeekFrom::Start(from as u64));
        let _ = f.read_to_end(&mut v);
    }
    v
}

fn c13_case(ctx: &mut Ctx, rng: &mut Rng, i: u64) {
    run::begin_case();
    let dir = ctx.scratch("c13");
    let n = rng.range(2, ctx.n(6, 8)) as usize;
    // one case in five has a consumer that stops reading early while its producer still has far more than a pipe holds
    let early = rng.chance(200);
    let early_at = if early { rng.range(1, n as u64 - 1) as usize } else { usize::MAX };
    let stages: Vec<Stage> = (0..n)
        .map(|j| Stage {
            a: (rng.range(1, 255) as u8) | 1,
            b: rng.below(256) as u8,
            nerr: if early { 0 } else { rng.below(6) },
            linger: if j + 1 < n && rng.chance(250) { rng.range(50, 150) } else { 0 },
            // (codes above 127 look like "killed by a signal" to shells: they are plain exit codes all the same)
            code: if rng.chance(500) { 0 } else { *rng.pick(&[1u32, 2, 3, 13, 126, 127, 128, 129, 137, 141, 200, 255]) },
            take: if j == early_at { rng.range(1, 5000) } else { 0 },
            close_err: rng.chance(500),
        })
        .collect();
    // a copy of a command stands for the command
    let execs: Vec<Exec> = stages.iter().enumerate().map(|(j, s)| stage_exec(ctx, j, s, &dir)).map(|e| if rng.chance(150) { e.clone() } else { e }).collect();
    let size = if early { rng.range(300_000, 900_000) } else { match rng.below(8) { 0 => 0, 1 => rng.range(100_000, if ctx.quick() { 1_000_000 } else { 4_000_000 }), 2 => 65536, _ => rng.range(1, 70_000) } } as usize;
    let data = pat_vec(rng.next(), 5, 0, size);
    // terminator and stream kinds
    let term = *rng.pick(&["join", "capture", "popen", "stream_stdout", "stream_stdin", "communicate"]);
    // the early-exit scenario feeds the pipeline from a file, so that the parent itself is not the one who gets EPIPE
    let term = if early && term == "stream_stdin" { "join" } else { term };
    let stdin_kind = if early { "file" } else { match term {
        "capture" | "communicate" => *rng.pick(&["data", "file", "inherit"]),
        "join" | "stream_stdout" => *rng.pick(&["file", "inherit"]),
        "popen" => *rng.pick(&["pipe", "file"]),
        _ => "pipe",
    } };
    let stdout_kind = match term {
        "capture" | "communicate" | "stream_stdout" => "pipe",
        "join" | "stream_stdin" => *rng.pick(&["file", "inherit"]),
        _ => *rng.pick(&["pipe", "file"]),
    };
    let stderr_kind = match term {
        "capture" | "communicate" => "captured",
        _ => *rng.pick(&["file", "inherit"]),
    };
    let in_path = dir.join("input.bin");
    let out_path = dir.join("output.bin");
    let err_path = dir.join("errors.txt");
    // what the first stage will read
    let mut input = data.clone();
    let in0 = 0;
    let mut pre_in: Setter = None;
    // the worker's own stdin (a scratch file with content) is at its beginning: a first command that wrongly inherits
    // it instead of what was configured reads foreign bytes rather than an accidental end-of-file
    unsafe { libc::syscall(libc::SYS_lseek, 0, in0, libc::SEEK_SET) };
    match stdin_kind {
        "file" => {
            std::fs::write(&in_path, &data).unwrap();
            let f = std::fs::File::open(&in_path).unwrap();
            pre_in = Some(Box::new(move |p: Pipeline| p.stdin(f)));
        }
        "data" => {
            let d = data.clone();
            pre_in = Some(Box::new(move |p: Pipeline| p.stdin(d)));
        }
        "pipe" => pre_in = Some(Box::new(|p: Pipeline| p.stdin(Redirection::Pipe))),
        _ => {
            // inherited: the worker's own stdin is a scratch file; rewind it and take its content from there
            unsafe { libc::syscall(libc::SYS_lseek, 0, in0, libc::SEEK_SET) };
            input = read_own_from(0, in0);
        }
    }
    let out_before = own_offset(1);
    let err_before = own_offset(2);
    let mut pre_out: Setter = None;
    match stdout_kind {
        "file" => {
            let f = std::fs::File::create(&out_path).unwrap();
            pre_out = Some(Box::new(move |p: Pipeline| p.stdout(f)));
        }
        // (terminators that pipe stdout themselves do it after composition)
        "pipe" if term == "popen" => pre_out = Some(Box::new(|p: Pipeline| p.stdout(Redirection::Pipe))),
        _ => {}
    }
    let mut pre_err: Setter = None;
    if stderr_kind == "file" {
        let f = std::fs::File::create(&err_path).unwrap();
        pre_err = Some(Box::new(move |p: Pipeline| p.stderr_to(f)));
    }
    let (mut pl, shape) = compose(rng, execs, &mut pre_in, &mut pre_out, &mut pre_err);
    if let Some(f) = pre_in.take() {
        pl = f(pl);
    }
    if let Some(f) = pre_out.take() {
        pl = f(pl);
    }
    if let Some(f) = pre_err.take() {
        pl = f(pl);
    }
    // ... and a copy of a configured pipeline is that pipeline: commands, both ends and the shared stderr sink
    let mut shape = shape;
    if rng.chance(300) {
        let copy = pl.clone();
        drop(pl);
        pl = copy;
        shape.push_str("+clone");
        ctx.count("pipelines_run_from_a_clone", 1);
    }
    let dbg = format!("{:?}", pl);
    // a caller that has closed some of its own standard descriptors (only where the pipeline does not inherit them)
    let layout = if stdin_kind != "inherit" && stdout_kind != "inherit" && stderr_kind != "inherit" && rng.chance(200) { rng.range(1, 7) as u8 } else { 0 };
    let holes = if layout != 0 {
        ctx.count("pipelines_run_with_parent_standard_descriptors_closed", 1);
        shape.push_str(&format!("+parent-fds-closed:{:03b}", layout));
        Some(spawn::StdHoles::make(layout))
    } else {
        None
    };
    // the calling thread may have SIGPIPE (and more) blocked - it takes its signals with sigwait / signalfd: that is the
    // caller's business, a command whose reader has gone is ended by SIGPIPE all the same
    let caller_blocks_sigpipe = rng.chance(330);
    let mut old_mask: libc::sigset_t = unsafe { std::mem::zeroed() };
    if caller_blocks_sigpipe {
        unsafe {
            let mut set: libc::sigset_t = std::mem::zeroed();
            libc::sigemptyset(&mut set);
            libc::sigaddset(&mut set, libc::SIGPIPE);
            libc::sigaddset(&mut set, libc::SIGUSR1);
            libc::pthread_sigmask(libc::SIG_BLOCK, &set, &mut old_mask);
        }
        ctx.count("pipelines_run_from_a_thread_with_SIGPIPE_blocked", 1);
    }
    let mut got_out: Option<Vec<u8>> = None;
    let mut got_err: Option<Vec<u8>> = None;
    let mut status: Option<ExitStatus> = None;
    let data2 = data.clone();
    let mut parent_extra: Vec<String> = vec![];
    // join/capture may be called from a destructor while the caller's thread unwinds (a guard that shuts a job down):
    // they return only after all commands have exited there, too
    let unwinding = matches!(term, "join" | "capture") && rng.chance(150);
    if unwinding {
        ctx.count("pipelines_run_from_a_destructor_during_unwinding", 1);
    }
    // a signal handler of the caller may interrupt the parent's read()/poll() during capture()/communicate(): the call
    // then fails with Interrupted (an honest outcome) - it never returns a shortened result as if all had been read
    let eintr = !unwinding && matches!(term, "capture" | "communicate") && rng.chance(200);
    if eintr {
        crate::plan::seed(rng.next());
        for kind in [k::READ, k::POLL] {
            crate::plan::add(crate::plan::Rule { kind, scope: crate::plan::SCOPE_PARENT, nth: 0, fd: -1, act: crate::plan::ACT_FAIL, val: libc::EINTR as i64, prob: 30 });
        }
        ctx.count("pipelines_whose_exchange_may_be_interrupted_by_signal_handlers", 1);
    }
    let body = || -> Result<(), String> {
        match term {
            "join" => status = Some(pl.join().map_err(|e| e.to_string())?),
            "capture" => {
                let c = pl.capture().map_err(|e| e.to_string())?;
                status = Some(c.exit_status);
                got_out = Some(c.stdout);
                got_err = Some(c.stderr);
            }
            "communicate" => {
                let mut c = pl.communicate().map_err(|e| e.to_string())?;
                let (o, e) = c.read().map_err(|e| e.to_string())?;
                got_out = o;
                got_err = e;
            }
            "stream_stdout" => {
                let mut r = pl.stream_stdout().map_err(|e| e.to_string())?;
                let mut v = vec![];
                r.read_to_end(&mut v).map_err(|e| e.to_string())?;
                got_out = Some(v);
            }
            "stream_stdin" => {
                let mut w = pl.stream_stdin().map_err(|e| e.to_string())?;
                w.write_all(&data2).map_err(|e| e.to_string())?;
                drop(w);
            }
            _ => {
                let before = spawn::snap();
                let mut v: Vec<Popen> = pl.popen().map_err(|e| e.to_string())?;
                // the parent may hold nothing of the pipeline but the exposed ends of its first and last command
                let mut allowed = vec![];
                for p in v.iter() {
                    for f in [&p.stdin, &p.stdout, &p.stderr] {
                        if let Some(f) = f {
                            allowed.push(f.as_raw_fd());
                        }
                    }
                }
                let extra: Vec<String> = crate::ilog::quiet(|| spawn::leaked(&before, &spawn::snap(), &allowed)).into_iter().filter(|s| s.contains("pipe:")).collect();
                if !extra.is_empty() {
                    parent_extra = extra;
                }
                // feed and drain concurrently-safe: write from a helper thread when both ends are piped
                let stdin = v[0].stdin.take();
                let stdout = v.last_mut().unwrap().stdout.take();
                let d3 = data2.clone();
                let h = stdin.map(|mut s| {
                    std::thread::spawn(move || {
                        let _ = s.write_all(&d3);
                    })
                });
                if let Some(mut o) = stdout {
                    let mut b = vec![];
                    let _ = o.read_to_end(&mut b);
                    got_out = Some(b);
                }
                if let Some(h) = h {
                    let _ = h.join();
                }
                let mut last = None;
                for p in v.iter_mut() {
                    last = p.wait().ok();
                }
                status = last;
            }
        }
        Ok(())
    };
    let m = run::monitored(|| -> Result<(), String> { if unwinding { run::in_unwinding_destructor(body).unwrap_or_else(|| Err("the destructor did not run".into())) } else { body() } });
    if caller_blocks_sigpipe {
        unsafe { libc::pthread_sigmask(libc::SIG_SETMASK, &old_mask, std::ptr::null_mut()) };
    }
    drop(holes);
    let evs = m.events();
    let pids = spawn::forked_pids(&evs);
    let left = spawn::surviving(&pids);
    ctx.count("pipelines", 1);
    ctx.count(&format!("terminator.{}", term), 1);
    ctx.count(&format!("stdin.{}", stdin_kind), 1);
    ctx.count(&format!("stdout.{}", stdout_kind), 1);
    ctx.distinct(&format!("{}|{}|{}|{}|{}|{}", n, shape, term, stdin_kind, stdout_kind, stderr_kind));
    let desc = J::obj()
        .set("stages", J::Arr(stages.iter().map(|s| J::s(&format!("a={} b={} nerr={} linger={} exit={}", s.a, s.b, s.nerr, s.linger, s.code))).collect()))
        .set("shape", J::s(&shape))
        .set("terminator", J::s(term))
        .set("stdin", J::s(stdin_kind))
        .set("stdout", J::s(stdout_kind))
        .set("stderr", J::s(stderr_kind))
        .set("input_len", J::i(input.len() as i64));
    if i < 2 {
        ctx.sample(desc.clone());
    }
    let w = |extra: J| desc.clone().set("debug", J::s(&dbg[..dbg.len().min(600)])).set("detail", extra);
    if !parent_extra.is_empty() {
        ctx.violation("C13/parent-holds-interstage-pipe", "after Pipeline::popen() the parent still holds an end of a pipe between two commands: the commands are not connected to each other and nothing else", w(J::arr_s(&parent_extra)));
    }
    // "connected to each other and nothing else": a command of the pipeline holds no descriptor above 2 on any pipe the
    // library created for this pipeline (its own three streams are all it has of them)
    {
        let lib: std::collections::BTreeSet<u64> = spawn::lib_pipes(&evs).iter().map(|p| p.ino).collect();
        let mut foreign: Vec<String> = vec![];
        for j in 0..n {
            for l in crate::kid::read_lines(&dir.join(format!("stage{}.rep", j))) {
                if let Some(rest) = l.strip_prefix("xfd ") {
                    let parts: Vec<&str> = rest.split(' ').collect();
                    if let Some(ino) = parts.get(1).and_then(|t| crate::inspect::pipe_ino(t)) {
                        if lib.contains(&ino) {
                            foreign.push(format!("command {} holds fd {} -> {} ({})", j, parts[0], parts[1], if parts.get(2) == Some(&"0") { "read end" } else { "write end" }));
                        }
                    }
                }
            }
        }
        ctx.count("commands_audited_for_foreign_pipe_ends", n as i64);
        if !foreign.is_empty() {
            ctx.violation("C13/command-holds-another-pipe-of-the-pipeline", "a command of the pipeline holds, besides its own three streams, a descriptor of a pipe the library created for the pipeline", w(J::arr_s(&foreign)));
        }
    }
    // a command whose reader has gone is ended by SIGPIPE; one that lives on to see the write fail with EPIPE runs with
    // the signal blocked or ignored (it would go on producing for ever if it ignored errors)
    {
        let mut saw_epipe = vec![];
        for j in 0..n {
            for l in crate::kid::read_lines(&dir.join(format!("stage{}.rep", j))) {
                if let Some(rest) = l.strip_prefix("eof ") {
                    if rest.split(' ').nth(2) == Some(&libc::EPIPE.to_string()) {
                        saw_epipe.push(format!("command {}: write failed with EPIPE, the command was not ended by SIGPIPE", j));
                    }
                }
            }
        }
        if !saw_epipe.is_empty() {
            ctx.violation(
                &format!("C13/producer-outlives-its-reader{}", if caller_blocks_sigpipe { "/caller-blocks-SIGPIPE" } else { "" }),
                "a command kept running after its reader had gone: SIGPIPE did not end it",
                w(J::arr_s(&saw_epipe)),
            );
        }
    }
    ctx.count(if early { "pipelines_with_early_exiting_consumer" } else { "pipelines_reading_everything" }, 1);
    if let Some(c) = &m.cert {
        ctx.violation(&format!("C13/hang/{}{}", term, if early { "/early-exiting-consumer" } else { "" }), "the pipeline deadlocked", w(run::cert_json(c)));
        run::end_case();
        return;
    }
    if let Some(p) = &m.panic {
        ctx.violation(&format!("C13/panic/{}", term), "pipeline terminator panicked", w(J::s(p)));
        run::end_case();
        return;
    }
    if let Some(Err(e)) = &m.result {
        if eintr && (e.contains("nterrupted") || e.contains("os error 4")) {
            ctx.count("pipelines_ended_by_an_injected_interruption(honest error, not judged further)", 1);
            run::end_case();
            return;
        }
        ctx.violation(&format!("C13/failed/{}", term), &format!("pipeline failed: {}", e), w(J::Null));
        run::end_case();
        return;
    }
    // "only after all commands have exited"
    if matches!(term, "join" | "capture") {
        ctx.count("exit_audits_at_return", 1);
        if !left.is_empty() {
            ctx.violation(&format!("C13/returned-before-all-exited/{}", term), "join/capture returned while a command of the pipeline was still there", w(J::s(&format!("{:?}", left))));
        }
    }
    // give detached/streaming variants a moment to finish their files
    if matches!(term, "stream_stdin" | "communicate" | "stream_stdout") {
        for p in &pids {
            spawn::wait_dead(*p, 3000);
        }
    }
    if stdout_kind == "file" {
        got_out = Some(std::fs::read(&out_path).unwrap_or_default());
    } else if stdout_kind == "inherit" {
        got_out = Some(read_own_from(1, out_before));
    }
    match stderr_kind {
        "file" => got_err = Some(std::fs::read(&err_path).unwrap_or_default()),
        "inherit" => got_err = Some(read_own_from(2, err_before)),
        _ => {}
    }
    let exp = expected_output(&input, &stages);
    if let Some(o) = &got_out {
        ctx.count("output_bytes_verified", o.len() as i64);
        if *o != exp {
            // diagnose with the trailers
            let tail = String::from_utf8_lossy(&o[o.len().saturating_sub(200)..]).into_owned();
            let etail = String::from_utf8_lossy(&exp[exp.len().saturating_sub(200)..]).into_owned();
            ctx.violation(
                &format!("C13/composition/{}", shape_class(&shape)),
                &format!("the pipeline's output ({} bytes) is not the composition of the stages applied in order to its input ({} bytes expected)", o.len(), exp.len()),
                w(J::obj().set("output_tail", J::s(&tail)).set("expected_tail", J::s(&etail))),
            );
        }
    }
    if let Some(e) = &got_err {
        let mut lines: Vec<String> = String::from_utf8_lossy(e).lines().map(|s| s.to_string()).collect();
        lines.sort();
        let want = expected_err_lines(&stages);
        ctx.count("stderr_lines_verified", want.len() as i64);
        if lines != want {
            ctx.violation(&format!("C13/stderr-lines/{}", stderr_kind), &format!("the shared stderr sink has {} lines, the stages wrote {}", lines.len(), want.len()), w(J::obj().set("got", J::arr_s(&lines)).set("want", J::arr_s(&want))));
        }
    }
    if let Some(s) = status {
        ctx.count("statuses_verified", 1);
        let want = ExitStatus::Exited(stages[n - 1].code);
        if s != want {
            ctx.violation(&format!("C13/status/{}", term), &format!("returned {:?}, the last command exited with {:?}", s, want), w(J::Null));
        }
    }
    run::end_case();
}

fn shape_class(s: &str) -> &'static str {
    if s == "from_exec_iter" { "from_exec_iter" } else if s.starts_with("a|b") { "chain" } else if s.contains("|(") { "pipeline|pipeline" } else { "pipeline|exec" }
}

// ---------------------------------------------------------------- C14

const TERMS: [&str; 6] = ["popen", "join", "capture", "communicate", "stream_stdout", "stream_stdin"];
const STDINS: [&str; 4] = ["inherit", "pipe", "data", "file"];
const EARLIER: [&str; 6] = ["cat-like", "ignores-stdin-and-sleeps", "writes-a-lot", "writes-a-lot-to-stderr", "writes-forever-ignoring-errors", "stopped-for-a-while-then-exits"];

fn c14_case(ctx: &mut Ctx, n: usize, kfail: usize, stdin_kind: &str, term: &str, earlier: &str, detached: bool, via_clone: bool) {
    // which combinations exist
    let ok = match (term, stdin_kind) {
        ("popen", "data") | ("join", "data") | ("stream_stdout", "data") | ("stream_stdin", "data") => false, // input data is refused by these terminators (C16)
        ("stream_stdin", s) => s == "pipe",
        ("join", "pipe") | ("stream_stdout", "pipe") => true,
        _ => true,
    };
    if !ok {
        return;
    }
    run::begin_case();
    let dir = ctx.scratch("c14");
    let mut execs = vec![];
    let mut want_errno = libc::ENOENT;
    let mut process_limit = false;
    for j in 0..n {
        let mut e = if j == kfail {
            // why it cannot be started varies: nothing there (ENOENT), no execute permission or a directory (EACCES)
            use std::os::unix::fs::PermissionsExt;
            match (n + kfail + stdin_kind.len() + term.len() + earlier.len() + via_clone as usize) % 5 {
                0 => Exec::cmd(dir.join("no-such-program")),
                4 => {
                    // nothing wrong with the program: the process limit is reached, fork() fails with EAGAIN from this
                    // command on, and goes on failing for as long as the commands already started are around
                    want_errno = libc::EAGAIN;
                    crate::plan::add(crate::plan::Rule { kind: k::FORK, scope: crate::plan::SCOPE_PARENT, nth: kfail as u32 + 1, fd: -1, act: crate::plan::ACT_FAIL, val: libc::EAGAIN as i64, prob: 2000 });
                    process_limit = true;
                    Exec::cmd(&ctx.vchild).args(&["exit", "0"])
                }
                3 => {
                    // the program is fine but a step between fork and exec is refused: no such user id
                    use subprocess::ExecExt;
                    want_errno = libc::EINVAL;
                    Exec::cmd(&ctx.vchild).args(&["exit", "0"]).setuid(u32::MAX)
                }
                1 => {
                    std::fs::write(dir.join("not-executable"), b"#!/bin/true\n").unwrap();
                    std::fs::set_permissions(dir.join("not-executable"), std::fs::Permissions::from_mode(0o644)).unwrap();
                    want_errno = libc::EACCES;
                    Exec::cmd(dir.join("not-executable"))
                }
                _ => {
                    std::fs::create_dir_all(dir.join("a-directory")).unwrap();
                    want_errno = libc::EACCES;
                    Exec::cmd(dir.join("a-directory"))
                }
            }
        } else {
            match earlier {
                "cat-like" => stage_exec(ctx, j, &Stage { a: 1, b: 0, nerr: 0, linger: 0, code: 0, take: 0, close_err: false }, &dir),
                // detached: it outlives the attempt by far, so whoever waits for it is seen to have waited
                "ignores-stdin-and-sleeps" => Exec::cmd(&ctx.vchild).args(&["io", "1", if detached { "s3000,x0" } else { "s30,x0" }]).arg(dir.join(format!("io{}.rep", j))),
                // job control: stopped (not terminated) when the clean-up waits for it, continued a little later, then exits
                "stopped-for-a-while-then-exits" => Exec::cmd(&ctx.vchild).args(&["io", "1", "T120,x0"]).arg(dir.join(format!("io{}.rep", j))),
                "writes-a-lot" => Exec::cmd(&ctx.vchild).args(&["io", "1", "w1:400000:4096,x0"]).arg(dir.join(format!("io{}.rep", j))),
                // `while :; do echo; done`: survives EPIPE, so that only SIGPIPE (default action, not blocked) ends it once its reader is gone
                "writes-forever-ignoring-errors" => Exec::cmd(&ctx.vchild).args(&["io", "1", "Z1"]).arg(dir.join(format!("io{}.rep", j))),
                // more than a pipe holds on stderr: with capture/communicate the pipeline's stderr is a pipe the parent must serve or close
                _ => Exec::cmd(&ctx.vchild).args(&["io", "1", "w2:300000:4096,x0"]).arg(dir.join(format!("io{}.rep", j))),
            }
        };
        if detached {
            e = e.detached();
        }
        // a copy of a command is the same command (detached included)
        if via_clone {
            e = e.clone();
        }
        execs.push(e);
    }
    let mut pl = Pipeline::from_exec_iter(execs);
    let before = spawn::snap();
    match stdin_kind {
        "pipe" => pl = pl.stdin(Redirection::Pipe),
        "data" => pl = pl.stdin(vec![b'z'; 100_000]),
        "file" => {
            std::fs::write(dir.join("in"), vec![b'f'; 10_000]).unwrap();
            pl = pl.stdin(std::fs::File::open(dir.join("in")).unwrap());
        }
        _ => {
            unsafe { libc::syscall(libc::SYS_lseek, 0, 0, libc::SEEK_SET) };
        }
    }
    if matches!(term, "join" | "stream_stdin" | "popen") {
        pl = pl.stdout(NullFile);
    }
    if via_clone {
        pl = pl.clone();
    }
    // the caller's thread may have signals blocked (it handles them with sigwait / signalfd): that is its business and
    // not the commands'
    // ... or have closed some of its own standard descriptors (where the pipeline does not inherit its stdin from it)
    let layout: u8 = if stdin_kind != "inherit" && (n * 7 + kfail * 3 + term.len() + earlier.len()) % 5 == 0 { [1u8, 3, 5, 7, 2, 6, 4][(n + kfail + term.len()) % 7] } else { 0 };
    let holes = if layout != 0 {
        ctx.count("attempts_with_parent_standard_descriptors_closed", 1);
        Some(spawn::StdHoles::make(layout))
    } else {
        None
    };
    let caller_blocks_sigpipe = (n + kfail + term.len()) % 2 == 1;
    let mut old_mask: libc::sigset_t = unsafe { std::mem::zeroed() };
    if caller_blocks_sigpipe {
        unsafe {
            let mut set: libc::sigset_t = std::mem::zeroed();
            libc::sigemptyset(&mut set);
            libc::sigaddset(&mut set, libc::SIGPIPE);
            libc::sigaddset(&mut set, libc::SIGTERM);
            libc::pthread_sigmask(libc::SIG_BLOCK, &set, &mut old_mask);
        }
        ctx.count("attempts_from_a_thread_with_SIGPIPE_blocked", 1);
    }
    // the caller has exit-time work registered (atexit); in one case of three it cannot finish in a forked copy of the
    // caller (it needs a lock whose owner is another thread)
    let handler_blocks = (n + 2 * kfail + term.len() + earlier.len()) % 3 == 0;
    ilog::EXIT_HANDLER_BLOCKS.store(handler_blocks, std::sync::atomic::Ordering::SeqCst);
    // in one attempt of six the terminator is called from a destructor while the caller's thread unwinds
    let unwinding = (n + 3 * kfail + term.len() + 2 * earlier.len() + stdin_kind.len()) % 6 == 0;
    if unwinding {
        ctx.count("attempts_from_a_destructor_during_unwinding", 1);
    }
    let body = || -> Result<String, PopenError> {
        match term {
            "popen" => pl.popen().map(|v| format!("{} commands started", v.len())),
            "join" => pl.join().map(|s| format!("{:?}", s)),
            "capture" => pl.capture().map(|c| format!("{:?}", c.exit_status)),
            "communicate" => pl.communicate().map(|_| "communicator".into()),
            "stream_stdout" => pl.stream_stdout().map(|_| "reader".into()),
            _ => pl.stream_stdin().map(|_| "writer".into()),
        }
    };
    let m = run::monitored(|| -> Result<String, PopenError> { if unwinding { run::in_unwinding_destructor(body).unwrap_or_else(|| Ok("the destructor did not run".into())) } else { body() } });
    ilog::EXIT_HANDLER_BLOCKS.store(false, std::sync::atomic::Ordering::SeqCst);
    if caller_blocks_sigpipe {
        unsafe { libc::pthread_sigmask(libc::SIG_SETMASK, &old_mask, std::ptr::null_mut()) };
    }
    drop(holes);
    let evs = m.events();
    let forks = spawn::forked_pids(&evs);
    // state of the started commands at the moment the call returned
    let at_return: Vec<(i32, Option<char>)> = forks.iter().map(|&p| (p, crate::inspect::proc_state(p))).collect();
    let tag = format!("n{}/k{}/{}/{}/{}{}{}{}", n, kfail, stdin_kind, term, earlier, if detached { "/detached" } else { "" }, if via_clone { "/clone" } else { "" }, if layout != 0 { format!("/parent-fds-closed:{:03b}", layout) } else { String::new() });
    ctx.count("tuples_run", 1);
    ctx.distinct(&tag);
    let w = |extra: J| J::obj().set("case", J::s(&tag)).set("result", J::s(&format!("{:?}", m.result.as_ref().map(|r| r.as_ref().map_err(|e| e.to_string()))))).set("events_tail", J::arr_s(&ilog::fmt_tail(&evs.iter().filter(|e| e.kind != k::READ && e.kind != k::WRITE && e.kind != k::FCNTL).cloned().collect::<Vec<_>>(), 30))).set("detail", extra);
    ctx.count("attempts_in_a_caller_with_exit_handlers", 1);
    if ilog::child_exit_handlers() > 0 {
        ctx.violation(
            &format!("C14/forked-child-runs-the-callers-exit-handlers/{}", term),
            "the child forked for the command that cannot be started left through exit(): a copy of the caller, with every descriptor of the attempt, ran the caller's exit-time handlers; where such a handler cannot finish in a copy, the copy stays and the call that waits for it never returns",
            w(J::obj().set("handler_blocks_in_a_copy", J::Bool(handler_blocks)).set("certificate", m.cert.as_ref().map(run::cert_json).unwrap_or(J::Null))),
        );
        run::end_case();
        return;
    }
    if let Some(c) = &m.cert {
        ctx.violation(
            &format!("C14/hang/{}/stdin-{}/{}", term, stdin_kind, if kfail == 0 { "k0" } else { "k>0" }),
            "starting the pipeline did not return: it deadlocked waiting for a command that is itself waiting for the caller",
            w(run::cert_json(c)),
        );
        run::end_case();
        return;
    }
    if let Some(p) = &m.panic {
        ctx.violation(&format!("C14/panic/{}", term), "terminator panicked", w(J::s(p)));
        run::end_case();
        return;
    }
    if ilog::child_escapes() > 0 {
        ctx.violation(&format!("C14/forked-child-ran-on-in-the-callers-code/{}", term), "the child forked for the command that cannot be started returned into the caller's code instead of reporting the error and exiting", w(J::Null));
    }
    if process_limit {
        ctx.count("attempts_that_hit_the_process_limit", 1);
        if crate::plan::BUDGET_HIT.load(std::sync::atomic::Ordering::SeqCst) > 0 {
            ctx.violation(&format!("C14/keeps-retrying-fork/{}", term), "fork() failed with EAGAIN (process limit) and went on failing; instead of returning the error the call tried again and again (ended by the monitor after 24 attempts) while the commands it had already started - which hold the process slots - stayed alive", w(J::Null));
            run::end_case();
            return;
        }
    }
    match &m.result {
        Some(Ok(r)) => {
            ctx.violation(&format!("C14/no-error/{}", term), &format!("command {} cannot be started but the pipeline reported success ({})", kfail, r), w(J::Null));
            run::end_case();
            return;
        }
        Some(Err(PopenError::IoError(e))) if e.raw_os_error() == Some(want_errno) => ctx.count("errors_verified", 1),
        Some(Err(e)) => ctx.violation(&format!("C14/wrong-error/{}", term), &format!("expected the operating-system error {} of the failing command, got {}", want_errno, e), w(J::Null)),
        None => {}
    }
    // no later command was started
    ctx.count("fork_audits", 1);
    if forks.len() > kfail + 1 {
        ctx.violation(&format!("C14/later-command-started/{}", term), &format!("{} processes were forked although command {} failed to start", forks.len(), kfail), w(J::Null));
    }
    // nothing left behind
    let after = spawn::snap();
    let leaks = spawn::leaked(&before, &after, &[]);
    ctx.count("fd_audits", 1);
    if !leaks.is_empty() {
        ctx.violation(&format!("C14/fd-leak/{}", term), "descriptors of the failed attempt remain open in the parent", w(J::arr_s(&leaks)));
    }
    ctx.count("child_audits", 1);
    if detached && earlier == "ignores-stdin-and-sleeps" && kfail > 0 && m.result.is_some() {
        // "returns promptly", "unless detached have been waited for": a detached command that sleeps for seconds is
        // still running when the call returns - it is gone only if somebody waited for it
        ctx.count("detached_long_runners_checked_at_return", 1);
        let gone: Vec<String> = at_return.iter().take(kfail).filter(|(_, st)| !matches!(st, Some('S') | Some('R') | Some('D'))).map(|(p, st)| format!("pid {} state {:?}", p, st)).collect();
        if !gone.is_empty() {
            ctx.violation(&format!("C14/detached-command-waited-for/{}{}", term, if via_clone { "/clone" } else { "" }), "the call returned only after a detached, long-running command of the failed attempt had finished: it waited for a command it must not wait for", w(J::arr_s(&gone)));
        }
    }
    if detached {
        // commands that did start are detached, but the forked child of the command that failed to start is nobody's to wait for but the library's
        if let Some(&failed) = forks.get(kfail) {
            spawn::wait_dead(failed, 1000);
            if let Some(st) = spawn::surviving(&[failed]).first() {
                ctx.violation(&format!("C14/zombie-of-failed-command/{}", term), "the child forked for the command that could not be started was never reaped", w(J::s(&format!("{:?}", st))));
            }
        }
    } else {
        let left = spawn::surviving(&forks);
        if !left.is_empty() {
            let z = left.iter().any(|s| s.1 == 'Z');
            ctx.violation(&format!("C14/{}/{}", if z { "zombie" } else { "running-orphan" }, term), "a command of the failed attempt has not been waited for", w(J::s(&format!("{:?}", left))));
        }
    }
    run::end_case();
}

/// The first command only consumes (it writes nothing to its stdout) and the last command closes its stdout at once:
/// the pipeline's input data must still reach the first command in full ("the configured input reaches the first
/// command" for all data sizes), also when capture()/communicate() see end-of-file on the output long before.
fn c13_sink_case(ctx: &mut Ctx, rng: &mut Rng, _i: u64) {
    run::begin_case();
    let dir = ctx.scratch("c13s");
    let rep = dir.join("first.rep");
    let size = *rng.pick(&[0usize, 1, 4096, 65536, 65537, 200_000, 1_000_000, 3_000_000]) + rng.below(3) as usize;
    let seed = rng.next() >> 1;
    let data = pat_vec(seed, 0, 0, size);
    let first = Exec::cmd(&ctx.vchild).args(&["io", "1", &format!("s{},R,x0", rng.range(0, 20))]).arg(&rep);
    let mut cmds = vec![first];
    for _ in 0..rng.range(1, 3) {
        cmds.push(Exec::cmd(&ctx.vchild).args(&["exit", "0"]));
    }
    let pl = Pipeline::from_exec_iter(cmds).stdin(data.clone());
    let via_capture = rng.chance(600);
    let m = run::monitored(|| -> Result<(), String> {
        if via_capture {
            pl.capture().map(|_| ()).map_err(|e| e.to_string())
        } else {
            let mut c = pl.communicate().map_err(|e| e.to_string())?;
            c.read().map(|_| ()).map_err(|e| e.to_string())
        }
    });
    let evs = m.events();
    for p in spawn::forked_pids(&evs) {
        spawn::wait_dead(p, 5000);
    }
    ctx.count("pipelines", 1);
    ctx.count("pipelines_whose_first_command_only_consumes", 1);
    ctx.distinct(&format!("sink|{}|{}", size, via_capture));
    let w = J::obj().set("input_len", J::i(size as i64)).set("terminator", J::s(if via_capture { "capture" } else { "communicate" })).set("result", J::s(&format!("{:?}", m.result))).set("first_command_report", J::arr_s(&crate::kid::read_lines(&rep)));
    if let Some(c) = &m.cert {
        ctx.violation("C13/hang/sink-first-command", "the pipeline deadlocked", w.set("certificate", run::cert_json(c)));
    } else if let Some(Ok(())) = m.result {
        let lines = crate::kid::read_lines(&rep);
        if let Some(l) = lines.iter().rev().find(|l| l.starts_with("in ")) {
            let p: Vec<&str> = l.split(' ').collect();
            let (len, h): (u64, u64) = (p[1].parse().unwrap_or(0), p[2].parse().unwrap_or(0));
            ctx.count("input_bytes_verified_at_first_command", len as i64);
            if len != size as u64 || h != crate::common::fnv(&data) {
                ctx.violation(
                    "C13/input-truncated-at-first-command",
                    &format!("the pipeline reported success but its first command received {} of the {} input bytes", len, size),
                    w,
                );
            }
        }
    } else if m.panic.is_some() {
        ctx.violation("C13/panic/sink-first-command", "panic", w);
    }
    run::end_case();
}

pub fn run_c13(ctx: &mut Ctx) {
    let n = ctx.n(1000, 20_000);
    ctx.family("pipelines", n, c13_case);
    let ns = ctx.n(160, 3000);
    ctx.family("sink-first-command", ns, c13_sink_case);
}

pub fn run_c14(ctx: &mut Ctx) {
    // enumerate (n, k, stdin, terminator, earlier behaviour, detached) completely for n <= 3 (quick) / 4 (thorough), sample above
    let maxn = ctx.n(3, 4) as usize;
    let mut tuples = vec![];
    for n in 2..=maxn {
        for kf in 0..n {
            for s in STDINS {
                for t in TERMS {
                    for (ei, e) in EARLIER.iter().enumerate() {
                        for (det, cl) in [(false, false), (true, false), (true, true), (false, true)] {
                            // the clone route is enumerated for the detached variant; for the attached one it is sampled
                            if !det && cl && (n + kf + ei) % 3 != 0 {
                                continue;
                            }
                            tuples.push((n, kf, s, t, *e, det, cl));
                        }
                    }
                }
            }
        }
    }
    ctx.max("tuples_enumerated", tuples.len() as i64);
    let total = tuples.len() as u64;
    let t2 = tuples.clone();
    ctx.family("enumerated", total, move |ctx, _rng, i| {
        let (n, kf, s, t, e, det, cl) = t2[i as usize];
        if i < 2 {
            ctx.sample(J::s(&format!("n={} k={} stdin={} terminator={} earlier={} detached={} via_clone={}", n, kf, s, t, e, det, cl)));
        }
        c14_case(ctx, n, kf, s, t, e, det, cl);
    });
    // other threads of the caller start unrelated long-running commands while a pipeline fails to start: the attempt
    // is over when its own commands are dealt with; every unrelated command (each lives 30 s) is still running then
    let ncc = ctx.n(40, 1000);
    ctx.family("concurrent-with-unrelated-spawns", ncc, |ctx, rng, i| {
        use std::sync::atomic::{AtomicBool, Ordering::SeqCst};
        use std::sync::{Arc, Mutex};
        run::begin_case();
        let dir = ctx.scratch("c14c");
        crate::plan::seed(rng.next());
        crate::plan::add(crate::plan::Rule { kind: k::PIPE, scope: crate::plan::SCOPE_PARENT, nth: 0, fd: -1, act: crate::plan::ACT_DELAY_AFTER, val: -400, prob: 500 });
        let lingerers: Arc<Mutex<Vec<i32>>> = Arc::new(Mutex::new(vec![]));
        let stop = Arc::new(AtomicBool::new(false));
        let vchild = ctx.vchild.clone();
        let attempts = rng.range(4, 10) as usize;
        let terms: Vec<&str> = (0..attempts).map(|_| *rng.pick(&["popen", "join", "capture", "communicate", "stream_stdout"])).collect();
        let dir2 = dir.clone();
        // in every other storm one more thread of the caller keeps writing the environment (and the command that
        // cannot be started is looked for on PATH): a lock that thread holds at the moment of a fork is nothing the
        // forked child may wait for
        let env_writer = i % 2 == 1;
        let missing: std::ffi::OsString = if env_writer { "no-such-program-anywhere-on-PATH".into() } else { dir.join("no-such-program").into_os_string() };
        let stop_w = Arc::new(AtomicBool::new(false));
        let writer = if env_writer {
            ctx.count("failing_attempts_while_another_thread_writes_the_environment", attempts as i64);
            let stop_w = stop_w.clone();
            Some(std::thread::spawn(move || {
                let mut n = 0u64;
                while !stop_w.load(SeqCst) {
                    std::env::set_var("VERIF_C14_SPIN", n.to_string());
                    std::env::remove_var("VERIF_C14_SPIN");
                    n += 1;
                }
            }))
        } else {
            None
        };
        let m = run::monitored(|| {
            let mut hs = vec![];
            for _ in 0..2 {
                let (lingerers, stop, vchild) = (lingerers.clone(), stop.clone(), vchild.clone());
                hs.push(std::thread::spawn(move || {
                    ilog::set_subject(true);
                    let mut held = vec![];
                    while !stop.load(SeqCst) && held.len() < 60 {
                        if let Ok(p) = Popen::create(&[vchild.clone().into_os_string(), "sleep".into(), "30000".into()], subprocess::PopenConfig { detached: true, ..Default::default() }) {
                            if let Some(pid) = p.pid() {
                                lingerers.lock().unwrap().push(pid as i32);
                            }
                            held.push(p);
                        }
                        std::thread::sleep(std::time::Duration::from_micros(200));
                    }
                    ilog::set_subject(false);
                    held
                }));
            }
            let mut bad: Vec<String> = vec![];
            let mut done = 0;
            for (a, term) in terms.iter().enumerate() {
                // cat | cat | <cannot be started>: the first two wait for end-of-file on their stdin
                let c = |j: usize| stage_exec_raw(&vchild, j, &dir2, a);
                let pl = Pipeline::from_exec_iter(vec![c(0), c(1), Exec::cmd(&missing)]).stdin(Redirection::Pipe);
                let r = match *term {
                    "popen" => pl.popen().map(|_| ()),
                    "join" => pl.stdout(NullFile).join().map(|_| ()),
                    "capture" => Pipeline::from_exec_iter(vec![c(0), c(1), Exec::cmd(&missing)]).stdin(vec![b'z'; 1000]).capture().map(|_| ()),
                    "communicate" => Pipeline::from_exec_iter(vec![c(0), c(1), Exec::cmd(&missing)]).stdin(vec![b'z'; 1000]).communicate().map(|_| ()),
                    _ => pl.stream_stdout().map(|_| ()),
                };
                let snapshot: Vec<i32> = lingerers.lock().unwrap().clone();
                let gone: Vec<i32> = ilog::quiet(|| snapshot.iter().cloned().filter(|p| !matches!(crate::inspect::proc_state(*p), Some('S') | Some('R') | Some('D'))).collect());
                if !gone.is_empty() {
                    bad.push(format!("attempt {} ({}) returned only after unrelated commands {:?} had exited", a, term, gone));
                    break;
                }
                if r.is_ok() {
                    bad.push(format!("attempt {} ({}) reported success", a, term));
                }
                done += 1;
            }
            stop.store(true, SeqCst);
            let held: Vec<Vec<Popen>> = hs.into_iter().map(|h| h.join().unwrap_or_default()).collect();
            (bad, done, held)
        });
        stop_w.store(true, SeqCst);
        if let Some(h) = writer {
            let _ = h.join();
        }
        ctx.count("failing_attempts_while_other_threads_spawn", attempts as i64);
        ctx.distinct(&format!("c14conc|{}|{}", attempts, i));
        if let Some(c) = &m.cert {
            ctx.violation("C14/hang/concurrent", "a failing pipeline start deadlocked while other threads were spawning", run::cert_json(c));
        } else if let Some((bad, _done, held)) = m.result {
            if let Some(b) = bad.first() {
                let sig = if b.contains("only after unrelated") { "C14/returned-only-after-unrelated-commands-exited" } else { "C14/no-error/concurrent" };
                ctx.violation(sig, "with other threads of the caller starting unrelated long-running commands, a pipeline that fails to start did not return when its own commands were dealt with", J::arr_s(&bad));
            }
            drop(held);
        }
        run::end_case();
    });
    let nr = ctx.n(0, 8000);
    ctx.family("longer", nr, |ctx, rng, _i| {
        let n = rng.range(5, 6) as usize;
        let kf = rng.below(n as u64) as usize;
        c14_case(ctx, n, kf, *rng.pick(&STDINS), *rng.pick(&TERMS), *rng.pick(&EARLIER), rng.chance(300), rng.chance(300));
    });
}
