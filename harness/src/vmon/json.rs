// Minimal JSON value + writer (no external crates available offline that are worth the build time).
use std::collections::BTreeMap;
use std::fmt::Write;

#[derive(Clone, Debug)]
pub enum J {
    Null,
    Bool(bool),
    Int(i64),
    Num(f64),
    Str(String),
    Arr(Vec<J>),
    Obj(BTreeMap<String, J>),
}

impl J {
    pub fn obj() -> J {
        J::Obj(BTreeMap::new())
    }
    pub fn set(mut self, k: &str, v: J) -> J {
        if let J::Obj(ref mut m) = self {
            m.insert(k.to_string(), v);
        }
        self
    }
    pub fn put(&mut self, k: &str, v: J) {
        if let J::Obj(ref mut m) = self {
            m.insert(k.to_string(), v);
        }
    }
    pub fn s(x: &str) -> J {
        J::Str(x.to_string())
    }
    pub fn i(x: impl TryInto<i64>) -> J {
        J::Int(x.try_into().unwrap_or(i64::MAX))
    }
    pub fn arr_s(xs: &[String]) -> J {
        J::Arr(xs.iter().map(|s| J::Str(s.clone())).collect())
    }
    pub fn bytes(b: &[u8]) -> J {
        // printable form of arbitrary bytes
        J::Str(show_bytes(b, 200))
    }
    pub fn dump(&self) -> String {
        let mut s = String::new();
        self.write(&mut s);
        s
    }
    fn write(&self, out: &mut String) {
        match self {
            J::Null => out.push_str("null"),
            J::Bool(b) => out.push_str(if *b { "true" } else { "false" }),
            J::Int(i) => {
                let _ = write!(out, "{}", i);
            }
            J::Num(f) => {
                if f.is_finite() {
                    let _ = write!(out, "{}", f);
                } else {
                    out.push_str("null");
                }
            }
            J::Str(s) => esc(s, out),
            J::Arr(a) => {
                out.push('[');
                for (i, x) in a.iter().enumerate() {
                    if i > 0 {
                        out.push(',');
                    }
                    x.write(out);
                }
                out.push(']');
            }
            J::Obj(m) => {
                out.push('{');
                for (i, (k, v)) in m.iter().enumerate() {
                    if i > 0 {
                        out.push(',');
                    }
                    esc(k, out);
                    out.push(':');
                    v.write(out);
                }
                out.push('}');
            }
        }
    }
}

fn esc(s: &str, out: &mut String) {
    out.push('"');
    for c in s.chars() {
        match c {
            '"' => out.push_str("\\\""),
            '\\' => out.push_str("\\\\"),
            '\n' => out.push_str("\\n"),
            '\r' => out.push_str("\\r"),
            '\t' => out.push_str("\\t"),
            c if (c as u32) < 0x20 => {
                let _ = write!(out, "\\u{:04x}", c as u32);
            }
            c => out.push(c),
        }
    }
    out.push('"');
}

pub fn show_bytes(b: &[u8], max: usize) -> String {
    let mut s = String::new();
    for &c in b.iter().take(max) {
        if c == b'\\' {
            s.push_str("\\\\");
        } else if (0x20..0x7f).contains(&c) {
            s.push(c as char);
        } else {
            let _ = write!(s, "\\x{:02x}", c);
        }
    }
    if b.len() > max {
        let _ = write!(s, "...(+{} bytes)", b.len() - max);
    }
    s
}
