// vmon: monitoring worker.  Links the crate under test statically together
// with the interposition layer (interpose.rs), drives workloads and runs
// the oracles.  See /verif/DESIGN.md.

/// Direct system call by the monitor itself (bypasses the interposed `syscall`).
#[macro_export]
macro_rules! rsys {
    ($n:expr $(, $a:expr)* $(,)?) => {
        $crate::interpose::real_syscall($n as libc::c_long, &[$($a as libc::c_long),*])
    };
}

#[path = "../common.rs"]
mod common;
mod comm;
mod allocwatch;
mod ilog;
mod inspect;
mod interpose;
mod json;
mod kid;
mod plan;
mod props;
mod rng;
mod run;
mod spawn;
mod vclock;
mod watch;
mod winshim;

#[allow(dead_code)]
mod win_popen {
    include!(concat!(env!("OUT_DIR"), "/win_popen.rs"));
}
#[allow(dead_code)]
mod win_comm {
    include!(concat!(env!("OUT_DIR"), "/win_comm.rs"));
}

#[global_allocator]
static ALLOC: allocwatch::Watch = allocwatch::Watch;

use run::{Ctx, Tier};
use std::path::PathBuf;

fn main() {
    let args: Vec<String> = std::env::args().collect();
    if args.len() >= 2 && args[1] == "--list-interposed" {
        for s in interpose::INTERPOSED {
            println!("{}", s);
        }
        return;
    }
    if args.len() < 2 {
        eprintln!("usage: vmon <Cxx> --tier quick|thorough --seed N --shard i/n --work DIR --out FILE --vchild PATH [--only family:index] [--budget secs]");
        std::process::exit(2);
    }
    let prop = args[1].clone();
    let mut tier = Tier::Quick;
    let mut seed = 1u64;
    let (mut shard, mut nshards) = (0u64, 1u64);
    let mut work = PathBuf::from("/verif/work/manual");
    let mut out = PathBuf::from("/dev/stdout");
    let mut vchild = std::env::current_exe().unwrap().with_file_name("vchild");
    let mut only = None;
    let mut budget = 1e9;
    let mut verbose = false;
    let mut i = 2;
    while i < args.len() {
        let a = args[i].as_str();
        let v = args.get(i + 1).cloned().unwrap_or_default();
        match a {
            "--tier" => { tier = if v == "thorough" { Tier::Thorough } else { Tier::Quick }; i += 1; }
            "--seed" => { seed = v.parse().unwrap_or(1); i += 1; }
            "--shard" => {
                let p: Vec<&str> = v.split('/').collect();
                shard = p[0].parse().unwrap_or(0);
                nshards = p.get(1).and_then(|x| x.parse().ok()).unwrap_or(1);
                i += 1;
            }
            "--work" => { work = PathBuf::from(v); i += 1; }
            "--out" => { out = PathBuf::from(v); i += 1; }
            "--vchild" => { vchild = PathBuf::from(v); i += 1; }
            "--budget" => { budget = v.parse().unwrap_or(1e9); i += 1; }
            "--only" => {
                if let Some((f, n)) = v.rsplit_once(':') {
                    only = Some((f.to_string(), n.parse().unwrap_or(0)));
                }
                i += 1;
            }
            "--verbose" => verbose = true,
            _ => {}
        }
        i += 1;
    }
    std::fs::create_dir_all(&work).expect("work dir");
    let work = std::fs::canonicalize(&work).expect("canonical work dir");
    let vchild = std::fs::canonicalize(&vchild).expect("vchild binary not found");
    ilog::init();
    interpose::init_all();
    allocwatch::warm_up();
    run::install_panic_hook();
    unsafe {
        // orphans of our children are re-parented to us, so that they stay visible and can be cleaned up
        libc::prctl(libc::PR_SET_CHILD_SUBREAPER, 1, 0, 0, 0);
        libc::umask(0o022);
    }
    watch::start();
    let mut ctx = Ctx::new(&prop, tier, seed, shard, nshards, work, vchild, out, budget);
    ctx.only = only;
    ctx.verbose = verbose;
    if !props::run(&mut ctx) {
        eprintln!("unknown property {}", prop);
        std::process::exit(2);
    }
    ctx.finish();
    run::end_case();
    std::process::exit(0);
}
