// Helpers shared by the spawn-engine properties (C05-C08, C15, C17, C18):
// descriptor snapshots, library-created pipe bookkeeping, child audits.

use crate::ilog::{k, Ev};
use crate::inspect::{self, FdEnt};
use crate::json::J;
use crate::kid::{self, Report};
use crate::run::Ctx;
use std::collections::{BTreeMap, BTreeSet};
use std::path::{Path, PathBuf};

/// Hard link of vchild whose *name* selects report mode, leaving argv/env/cwd free.
/// flags: h = hold after reporting, p = offset probe, w = write markers, i = read stdin once, P = SIGPIPE probe, x = exit
pub fn report_exe(ctx: &Ctx, dir: &Path, id: &str, flags: &str) -> PathBuf {
    let p = dir.join(format!("vrep@{}@{}", id, flags));
    let _ = std::fs::remove_file(&p);
    if std::fs::hard_link(&ctx.vchild, &p).is_err() {
        std::fs::copy(&ctx.vchild, &p).expect("copy vchild");
    }
    p
}

pub fn report_path(exe: &Path) -> PathBuf {
    PathBuf::from(format!("{}.rep", exe.display()))
}

pub type FdSnap = BTreeMap<i32, (String, bool)>;

pub fn snap() -> FdSnap {
    inspect::self_fd_table().into_iter().map(|f: FdEnt| (f.fd, (f.target.clone(), f.cloexec()))).collect()
}

/// Descriptors present in `after` but not in `before` (or with a different target), minus `allowed`.
pub fn leaked(before: &FdSnap, after: &FdSnap, allowed: &[i32]) -> Vec<String> {
    let mut v = vec![];
    for (fd, (t, ce)) in after {
        if allowed.contains(fd) {
            continue;
        }
        match before.get(fd) {
            Some((t0, _)) if t0 == t => {}
            _ => v.push(format!("fd {} -> {}{}", fd, t, if *ce { " (cloexec)" } else { "" })),
        }
    }
    v
}

/// Descriptors of `before` that are gone or changed in `after`.
pub fn vanished(before: &FdSnap, after: &FdSnap) -> Vec<String> {
    let mut v = vec![];
    for (fd, (t, _)) in before {
        match after.get(fd) {
            Some((t1, _)) if t1 == t => {}
            Some((t1, _)) => v.push(format!("fd {} was {} now {}", fd, t, t1)),
            None => v.push(format!("fd {} ({}) closed", fd, t)),
        }
    }
    v
}

#[derive(Clone, Debug)]
pub struct LibPipe {
    pub ino: u64,
    pub rfd: i32,
    pub wfd: i32,
    pub seq: usize, // creation order within the log slice
}

/// Pipes created by monitored code (parent side) in this log slice.
pub fn lib_pipes(evs: &[Ev]) -> Vec<LibPipe> {
    let mut v = vec![];
    for e in evs {
        if (e.kind == k::PIPE || e.kind == k::PIPE2) && e.child == 0 && e.ret == 0 {
            v.push(LibPipe { ino: e.a[3] as u64, rfd: e.a[0] as i32, wfd: e.a[1] as i32, seq: v.len() });
        }
    }
    v
}

/// pids forked by monitored code (parent side).
pub fn forked_pids(evs: &[Ev]) -> Vec<i32> {
    evs.iter().filter(|e| e.kind == k::FORK && e.child == 0 && e.ret > 0).map(|e| e.ret as i32).collect()
}

pub fn count_kind(evs: &[Ev], kind: u16, child: bool) -> usize {
    evs.iter().filter(|e| e.kind == kind && (e.child != 0) == child).count()
}

/// State of the children forked by the attempt: (pid, state) for every one that still exists.
pub fn surviving(pids: &[i32]) -> Vec<(i32, char)> {
    let me = inspect::self_pid();
    let mut v = vec![];
    for &p in pids {
        if let Some(s) = inspect::proc_state(p) {
            // only count it if it is (still) our child: pid numbers may be recycled by someone else
            if inspect::proc_ppid(p) == Some(me) {
                v.push((p, s));
            }
        }
    }
    v
}

/// Wait (bounded, real time) until pid is a zombie or gone. Returns final state.
pub fn wait_dead(pid: i32, max_ms: u64) -> Option<char> {
    let t0 = std::time::Instant::now();
    loop {
        let s = inspect::proc_state(pid);
        if s.is_none() || s == Some('Z') {
            return s;
        }
        if t0.elapsed().as_millis() as u64 > max_ms {
            return s;
        }
        std::thread::sleep(std::time::Duration::from_micros(200));
    }
}

pub fn kill_now(pid: i32) {
    unsafe {
        crate::interpose::real_kill(pid, libc::SIGKILL);
    }
}

/// Roles of library-created pipes as seen from one child's report.
/// own_inos: pipes legitimately connected to this child's fds 0/1/2 (inode -> side writable?)
pub fn foreign_fds(rep: &Report, lib_inos: &BTreeSet<u64>) -> Vec<String> {
    // what the child's own std streams are
    let mut own: BTreeSet<(u64, bool)> = BTreeSet::new();
    for f in &rep.fds {
        if f.fd <= 2 {
            if let Some(i) = f.pipe_ino() {
                own.insert((i, f.writable()));
            }
        }
    }
    let mut bad = vec![];
    for f in &rep.fds {
        if f.fd > 2 {
            if let Some(i) = f.pipe_ino() {
                // any descriptor above 2 on a library-created pipe is a leak - also a second copy of the child's own
                // stream end: the child can close its stdout/stderr and the parent would still not see end-of-file
                if lib_inos.contains(&i) {
                    let dup = own.contains(&(i, f.writable()));
                    bad.push(format!("child fd {} -> pipe:[{}] ({} end{})", f.fd, i, if f.writable() { "write" } else { "read" }, if dup { ", extra copy of its own stream" } else { "" }));
                }
            }
        }
    }
    bad
}

pub fn report_json(r: &Report) -> J {
    J::obj()
        .set("argv", J::Arr(r.argv.iter().map(|a| J::bytes(a)).collect()))
        .set("cwd", J::bytes(&r.cwd))
        .set("exe", J::bytes(&r.exe))
        .set("ids", J::s(&format!("uid={} euid={} gid={} egid={} pid={} pgid={}", r.uid, r.euid, r.gid, r.egid, r.pid, r.pgid)))
        .set("sigblk", J::s(&format!("{:x}", r.sigblk)))
        .set("sigign", J::s(&format!("{:x}", r.sigign)))
        .set("fds", J::Arr(r.fds.iter().map(|f| J::s(&format!("{} -> {} fl={:o} cloexec={}", f.fd, f.target, f.flflags, f.fdflags & 1))).collect()))
}

pub fn get_report(exe: &Path, max_ms: u64) -> Option<Report> {
    kid::wait_report(&report_path(exe), max_ms)
}

pub fn errno_name(e: i32) -> String {
    let n = match e {
        1 => "EPERM", 2 => "ENOENT", 4 => "EINTR", 5 => "EIO", 7 => "E2BIG", 8 => "ENOEXEC", 9 => "EBADF", 11 => "EAGAIN", 12 => "ENOMEM",
        13 => "EACCES", 14 => "EFAULT", 20 => "ENOTDIR", 21 => "EISDIR", 22 => "EINVAL", 23 => "ENFILE", 24 => "EMFILE", 26 => "ETXTBSY",
        32 => "EPIPE", 36 => "ENAMETOOLONG", 40 => "ELOOP", _ => "",
    };
    if n.is_empty() { format!("errno {}", e) } else { format!("{}({})", n, e) }
}

/// The parent's own descriptor layout: the standard descriptors in `mask` (bit s = descriptor s) are closed for as long
/// as this value lives, and put back when it is dropped.  PROC_LOCK is held only while the layout is made and unmade.
/// Keeps copies of the standard descriptors of this process and puts them back when dropped (whatever happened to
/// the numbers 0..2 in between).
pub struct StdSave(Vec<(i32, i32)>);

impl StdSave {
    pub fn make() -> StdSave {
        let _g = inspect::proc_guard();
        let mut v = vec![];
        for s in 0..3 {
            let keep = unsafe { libc::syscall(libc::SYS_fcntl, s, libc::F_DUPFD_CLOEXEC, 100) as i32 };
            if keep >= 0 {
                v.push((s, keep));
            }
        }
        StdSave(v)
    }
}

impl Drop for StdSave {
    fn drop(&mut self) {
        let _g = inspect::proc_guard();
        for (s, keep) in self.0.drain(..) {
            unsafe {
                libc::syscall(libc::SYS_dup3, keep, s, 0);
                libc::syscall(libc::SYS_close, keep);
            }
        }
    }
}

pub struct StdHoles(Vec<(i32, i32)>);

impl StdHoles {
    pub fn make(mask: u8) -> StdHoles {
        let _g = inspect::proc_guard();
        let mut v = vec![];
        for s in 0..3 {
            if mask & (1 << s) != 0 {
                unsafe {
                    let keep = libc::syscall(libc::SYS_fcntl, s, libc::F_DUPFD_CLOEXEC, 100) as i32;
                    if keep >= 0 {
                        libc::syscall(libc::SYS_close, s);
                        v.push((s, keep));
                    }
                }
            }
        }
        StdHoles(v)
    }
}

impl Drop for StdHoles {
    fn drop(&mut self) {
        let _g = inspect::proc_guard();
        for (s, keep) in self.0.drain(..) {
            unsafe {
                libc::syscall(libc::SYS_dup3, keep, s, 0);
                libc::syscall(libc::SYS_close, keep);
            }
        }
    }
}
