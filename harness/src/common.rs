// Shared between vmon (the monitor/worker) and vchild (the scripted child).
// Pure functions only.

#[inline]
pub fn splitmix64(x: u64) -> u64 {
    let mut z = x.wrapping_add(0x9E37_79B9_7F4A_7C15);
    z = (z ^ (z >> 30)).wrapping_mul(0xBF58_476D_1CE4_E5B9);
    z = (z ^ (z >> 27)).wrapping_mul(0x94D0_49BB_1331_11EB);
    z ^ (z >> 31)
}

/// Byte `off` of pattern stream `stream` (0 = input, 1 = stdout, 2 = stderr, other = free) for `seed`.
/// Seeds whose low 16 bits carry this mark make the output streams (1, 2) valid UTF-8 text built from
/// 10-byte groups "<letter>é€𝄞": cut at an arbitrary length it ends, six times out of ten, in the middle of a
/// multi-byte sequence, and that truncated tail is then the first (and only) decoding error of the stream.
pub const TEXT_SEED_MARK: u64 = 0x7E47;

#[inline]
pub fn pat_byte(seed: u64, stream: u64, off: u64) -> u8 {
    if seed & 0xFFFF == TEXT_SEED_MARK && (stream == 1 || stream == 2) {
        const GROUP: [u8; 10] = [b'a', 0xC3, 0xA9, 0xE2, 0x82, 0xAC, 0xF0, 0x9D, 0x84, 0x9E];
        let i = (off % 10) as usize;
        if i != 0 {
            return GROUP[i];
        }
        let w = splitmix64(seed ^ stream.wrapping_mul(0xD6E8_FEB8_6659_FD93) ^ (off / 10).wrapping_mul(0xA076_1D64_78BD_642F));
        return b'a' + (w % 26) as u8;
    }
    let w = splitmix64(seed ^ stream.wrapping_mul(0xD6E8_FEB8_6659_FD93) ^ (off >> 3).wrapping_mul(0xA076_1D64_78BD_642F));
    (w >> ((off & 7) * 8)) as u8
}

pub fn pat_fill(seed: u64, stream: u64, off: u64, buf: &mut [u8]) {
    for (i, b) in buf.iter_mut().enumerate() {
        *b = pat_byte(seed, stream, off + i as u64);
    }
}

pub fn pat_vec(seed: u64, stream: u64, off: u64, len: usize) -> Vec<u8> {
    let mut v = vec![0u8; len];
    pat_fill(seed, stream, off, &mut v);
    v
}

pub const FNV_INIT: u64 = 0xcbf2_9ce4_8422_2325;

#[inline]
pub fn fnv_update(mut h: u64, data: &[u8]) -> u64 {
    for &b in data {
        h ^= b as u64;
        h = h.wrapping_mul(0x0000_0100_0000_01b3);
    }
    h
}

pub fn fnv(data: &[u8]) -> u64 {
    fnv_update(FNV_INIT, data)
}

pub fn hex(data: &[u8]) -> String {
    let mut s = String::with_capacity(data.len() * 2);
    for b in data {
        s.push_str(&format!("{:02x}", b));
    }
    s
}

pub fn unhex(s: &str) -> Vec<u8> {
    let b = s.as_bytes();
    let mut v = Vec::with_capacity(b.len() / 2);
    let mut i = 0;
    while i + 1 < b.len() {
        let hi = (b[i] as char).to_digit(16).unwrap_or(0) as u8;
        let lo = (b[i + 1] as char).to_digit(16).unwrap_or(0) as u8;
        v.push(hi << 4 | lo);
        i += 2;
    }
    v
}
