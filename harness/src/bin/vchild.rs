// vchild: the scripted child program.  It does not depend on the library
// under test.  It is started *by* the library and reports what it sees.
//
// `no_main`: the Rust runtime's start-up (which sets SIGPIPE to SIG_IGN)
// must not run, because the child's signal state is one of the things
// being observed.
#![no_main]

#[path = "../common.rs"]
mod common;
use common::*;

use std::ffi::CStr;
use std::os::raw::{c_char, c_int};

fn wr_all(fd: c_int, mut data: &[u8]) -> Result<(), i32> {
    while !data.is_empty() {
        let n = unsafe { libc::write(fd, data.as_ptr() as *const _, data.len()) };
        if n < 0 {
            let e = errno();
            if e == libc::EINTR {
                continue;
            }
            return Err(e);
        }
        data = &data[n as usize..];
    }
    Ok(())
}

fn errno() -> i32 {
    unsafe { *libc::__errno_location() }
}

fn sleep_ms(ms: u64) {
    let ts = libc::timespec { tv_sec: (ms / 1000) as _, tv_nsec: ((ms % 1000) * 1_000_000) as _ };
    let mut rem = ts;
    unsafe {
        let mut req = ts;
        while libc::nanosleep(&req, &mut rem) != 0 && errno() == libc::EINTR {
            req = rem;
        }
    }
}

struct Rep {
    fd: c_int,
}
impl Rep {
    fn open(path: &[u8]) -> Rep {
        if path.is_empty() || path == b"-" {
            return Rep { fd: -1 };
        }
        let mut p = path.to_vec();
        p.push(0);
        let fd = unsafe {
            libc::open(p.as_ptr() as *const c_char, libc::O_WRONLY | libc::O_CREAT | libc::O_APPEND | libc::O_CLOEXEC, 0o666)
        };
        Rep { fd }
    }
    fn line(&self, s: &str) {
        if self.fd >= 0 {
            let mut v = s.as_bytes().to_vec();
            v.push(b'\n');
            let _ = wr_all(self.fd, &v);
        }
    }
}

fn arg_bytes(argv: *const *const c_char, i: isize) -> &'static [u8] {
    unsafe { CStr::from_ptr(*argv.offset(i)).to_bytes() }
}
fn arg_str(argv: *const *const c_char, i: isize) -> &'static str {
    std::str::from_utf8(arg_bytes(argv, i)).unwrap_or("")
}
fn num(s: &str) -> u64 {
    s.parse::<u64>().unwrap_or(0)
}

#[no_mangle]
pub extern "C" fn main(argc: c_int, argv: *const *const c_char, envp: *const *const c_char) -> c_int {
    // Mode by executable name (hard link "vrep@...") leaves argv/env free for C06.
    let mut exe = vec![0u8; 8192];
    let n = unsafe { libc::readlink(b"/proc/self/exe\0".as_ptr() as *const c_char, exe.as_mut_ptr() as *mut c_char, exe.len()) };
    let exe: Vec<u8> = if n > 0 { exe[..n as usize].to_vec() } else { vec![] };
    let base_start = exe.iter().rposition(|&c| c == b'/').map(|p| p + 1).unwrap_or(0);
    let base = &exe[base_start..];
    if base.starts_with(b"vrep@") {
        // vrep@<id>@<flags>
        let flags: Vec<u8> = base.rsplit(|&c| c == b'@').next().unwrap_or(b"").to_vec();
        let mut rp = exe.clone();
        rp.extend_from_slice(b".rep");
        return mode_report(argc, argv, envp, &rp, &flags, &exe);
    }
    {
        // command-position evaluation of printed command lines (C19): dump the complete argv and leave
        let v = unsafe { libc::getenv(b"VCHILD_DUMP\0".as_ptr() as *const c_char) };
        if !v.is_null() {
            let path = unsafe { CStr::from_ptr(v).to_bytes().to_vec() };
            let rep = Rep::open(&path);
            let mut out = Vec::new();
            for i in 0..argc as isize {
                out.extend_from_slice(arg_bytes(argv, i));
                out.push(0);
            }
            let _ = wr_all(rep.fd, &out);
            return 0;
        }
    }
    {
        // the same for every command of a printed pipeline: one dump per program name, <dir>/<name>.argv
        let v = unsafe { libc::getenv(b"VCHILD_DUMP_DIR\0".as_ptr() as *const c_char) };
        if !v.is_null() {
            let mut path = unsafe { CStr::from_ptr(v).to_bytes().to_vec() };
            path.push(b'/');
            path.extend_from_slice(base);
            path.extend_from_slice(b".argv");
            let rep = Rep::open(&path);
            let mut out = Vec::new();
            for i in 0..argc as isize {
                out.extend_from_slice(arg_bytes(argv, i));
                out.push(0);
            }
            let _ = wr_all(rep.fd, &out);
            return 0;
        }
    }
    if base == b"sh" || base == b"env" {
        // stand-in for the platform shell (C16): report what the "shell" was given
        let v = unsafe { libc::getenv(b"VCHILD_REPORT\0".as_ptr() as *const c_char) };
        if !v.is_null() {
            let path = unsafe { CStr::from_ptr(v).to_bytes().to_vec() };
            return mode_report(argc, argv, envp, &path, b"x", &exe);
        }
    }
    if argc < 2 {
        return 2;
    }
    match arg_str(argv, 1) {
        "report" => {
            // report <path> <flags>
            let path = arg_bytes(argv, 2).to_vec();
            let flags = if argc > 3 { arg_bytes(argv, 3).to_vec() } else { vec![] };
            mode_report(argc, argv, envp, &path, &flags, &exe)
        }
        "io" => mode_io(argc, argv),
        "stage" => mode_stage(argc, argv),
        "ctl" => mode_ctl(argc, argv),
        "exit" => num(arg_str(argv, 2)) as c_int,
        "sig" => {
            die_of(num(arg_str(argv, 2)) as c_int);
            3
        }
        "hold" => {
            loop {
                unsafe { libc::pause() };
            }
        }
        "sleep" => {
            sleep_ms(num(arg_str(argv, 2)));
            if argc > 3 { num(arg_str(argv, 3)) as c_int } else { 0 }
        }
        "dumpargs" => {
            // dumpargs <file> args... : writes the args after <file>, each followed by NUL
            let rep = Rep::open(arg_bytes(argv, 2));
            let mut out = Vec::new();
            for i in 3..argc as isize {
                out.extend_from_slice(arg_bytes(argv, i));
                out.push(0);
            }
            let _ = wr_all(rep.fd, &out);
            0
        }
        "whoami" => {
            // whoami <file> [hold]: record which executable file is running (PATH winner identification)
            let rep = Rep::open(arg_bytes(argv, 2));
            let mut out = exe.clone();
            out.push(b'\n');
            let _ = wr_all(rep.fd, &out);
            0
        }
        "id" => {
            // id <token>: print the token to stdout (PATH winner identification)
            let _ = wr_all(1, arg_bytes(argv, 2));
            0
        }
        _ => 2,
    }
}

fn die_of(sig: c_int) {
    unsafe {
        // make sure the signal is deliverable and fatal
        libc::signal(sig, libc::SIG_DFL);
        let mut set: libc::sigset_t = std::mem::zeroed();
        libc::sigemptyset(&mut set);
        libc::sigaddset(&mut set, sig);
        libc::sigprocmask(libc::SIG_UNBLOCK, &set, std::ptr::null_mut());
        let lim = libc::rlimit { rlim_cur: 0, rlim_max: 0 };
        libc::setrlimit(libc::RLIMIT_CORE, &lim);
        libc::kill(libc::getpid(), sig);
        // real-time or otherwise slow signals: give them a moment
        sleep_ms(2000);
    }
}

// ---------------------------------------------------------------- report

fn push_kv(out: &mut Vec<u8>, key: &str, val: &[u8]) {
    out.extend_from_slice(format!("{} {}\n", key, val.len()).as_bytes());
    out.extend_from_slice(val);
    out.push(b'\n');
}

fn fd_table(out: &mut Vec<u8>, tag: &str) {
    // enumerate /proc/self/fd without std (std::fs::read_dir is fine but keep control of the dir fd)
    unsafe {
        let dfd = libc::open(b"/proc/self/fd\0".as_ptr() as *const c_char, libc::O_RDONLY | libc::O_DIRECTORY | libc::O_CLOEXEC);
        if dfd < 0 {
            return;
        }
        let dir = libc::fdopendir(dfd);
        if dir.is_null() {
            return;
        }
        let mut fds: Vec<i32> = vec![];
        loop {
            let ent = libc::readdir(dir);
            if ent.is_null() {
                break;
            }
            let name = CStr::from_ptr((*ent).d_name.as_ptr()).to_bytes();
            if let Ok(s) = std::str::from_utf8(name) {
                if let Ok(n) = s.parse::<i32>() {
                    if n != dfd {
                        fds.push(n);
                    }
                }
            }
        }
        libc::closedir(dir);
        fds.sort();
        for fd in fds {
            let mut link = vec![0u8; 4096];
            let p = format!("/proc/self/fd/{}\0", fd);
            let n = libc::readlink(p.as_ptr() as *const c_char, link.as_mut_ptr() as *mut c_char, link.len());
            let target = if n > 0 { String::from_utf8_lossy(&link[..n as usize]).into_owned() } else { String::from("?") };
            let fdfl = libc::fcntl(fd, libc::F_GETFD);
            let fl = libc::fcntl(fd, libc::F_GETFL);
            let mut st: libc::stat = std::mem::zeroed();
            let (dev, ino, mode) = if libc::fstat(fd, &mut st) == 0 { (st.st_dev as u64, st.st_ino as u64, st.st_mode as u64) } else { (0, 0, 0) };
            let off = libc::lseek(fd, 0, libc::SEEK_CUR);
            let line = format!("{} {} {} {} {} {} {} {}", fd, fdfl, fl, dev, ino, mode, off, target);
            push_kv(out, tag, line.as_bytes());
        }
    }
}

/// Descriptors above 2 that refer to pipes, as "<fd> <target> <access mode>" (taken before this program opens anything).
fn extra_pipe_fds() -> Vec<String> {
    let mut v = vec![];
    unsafe {
        let dfd = libc::open(b"/proc/self/fd\0".as_ptr() as *const c_char, libc::O_RDONLY | libc::O_DIRECTORY | libc::O_CLOEXEC);
        if dfd < 0 {
            return v;
        }
        let dir = libc::fdopendir(dfd);
        if dir.is_null() {
            return v;
        }
        loop {
            let ent = libc::readdir(dir);
            if ent.is_null() {
                break;
            }
            let name = CStr::from_ptr((*ent).d_name.as_ptr()).to_bytes();
            if let Some(n) = std::str::from_utf8(name).ok().and_then(|s| s.parse::<i32>().ok()) {
                if n > 2 && n != dfd {
                    let mut link = vec![0u8; 256];
                    let p = format!("/proc/self/fd/{}\0", n);
                    let k = libc::readlink(p.as_ptr() as *const c_char, link.as_mut_ptr() as *mut c_char, link.len());
                    if k > 0 {
                        let t = String::from_utf8_lossy(&link[..k as usize]).into_owned();
                        if t.starts_with("pipe:") {
                            v.push(format!("{} {} {}", n, t, libc::fcntl(n, libc::F_GETFL) & libc::O_ACCMODE));
                        }
                    }
                }
            }
        }
        libc::closedir(dir);
    }
    v
}

fn mode_report(argc: c_int, argv: *const *const c_char, envp: *const *const c_char, path: &[u8], flags: &[u8], exe: &[u8]) -> c_int {
    let mut out: Vec<u8> = Vec::with_capacity(1 << 16);
    // descriptor table first, before this program opens anything itself
    fd_table(&mut out, "fd");
    push_kv(&mut out, "argc", format!("{}", argc).as_bytes());
    for i in 0..argc as isize {
        push_kv(&mut out, "arg", arg_bytes(argv, i));
    }
    unsafe {
        let mut i = 0isize;
        while !(*envp.offset(i)).is_null() {
            push_kv(&mut out, "env", CStr::from_ptr(*envp.offset(i)).to_bytes());
            i += 1;
        }
        let mut cwd = vec![0u8; 16384];
        let r = libc::getcwd(cwd.as_mut_ptr() as *mut c_char, cwd.len());
        if !r.is_null() {
            push_kv(&mut out, "cwd", CStr::from_ptr(r).to_bytes());
        }
        push_kv(&mut out, "exe", exe);
        let ids = format!(
            "{} {} {} {} {} {} {} {}",
            libc::getuid(), libc::geteuid(), libc::getgid(), libc::getegid(),
            libc::getpid(), libc::getppid(), libc::getpgid(0), libc::getsid(0)
        );
        push_kv(&mut out, "ids", ids.as_bytes());
        let mut ng = [0 as libc::gid_t; 64];
        let n = libc::getgroups(64, ng.as_mut_ptr());
        let mut gs = String::new();
        for g in &ng[..n.max(0) as usize] {
            gs.push_str(&format!("{} ", g));
        }
        push_kv(&mut out, "groups", gs.as_bytes());
    }
    if let Ok(st) = std::fs::read("/proc/self/status") {
        for l in st.split(|&c| c == b'\n') {
            if l.starts_with(b"SigBlk:") || l.starts_with(b"SigIgn:") || l.starts_with(b"SigCgt:") || l.starts_with(b"SigPnd:") || l.starts_with(b"ShdPnd:") {
                let key = std::str::from_utf8(&l[..6]).unwrap_or("Sig").to_string();
                let val: Vec<u8> = l[7..].iter().cloned().filter(|c| !c.is_ascii_whitespace()).collect();
                push_kv(&mut out, &key, &val);
            }
        }
    }
    // SIGPIPE disposition straight from the kernel
    unsafe {
        let mut sa: libc::sigaction = std::mem::zeroed();
        if libc::sigaction(libc::SIGPIPE, std::ptr::null(), &mut sa) == 0 {
            let d = if sa.sa_sigaction == libc::SIG_DFL { "dfl" } else if sa.sa_sigaction == libc::SIG_IGN { "ign" } else { "handler" };
            push_kv(&mut out, "sigpipe", d.as_bytes());
        }
    }
    if flags.contains(&b'p') {
        // shared-offset probe: move fd 0/1/2 by distinct amounts, report the offsets again
        unsafe {
            let d = [13i64, 7, 11];
            for fd in 0..3 {
                let r = libc::lseek(fd, d[fd as usize], libc::SEEK_CUR);
                push_kv(&mut out, "probe", format!("{} {}", fd, r).as_bytes());
            }
        }
        fd_table(&mut out, "fd2");
    }
    if flags.contains(&b'w') {
        // write a marker to stdout and stderr so that the parent can see where they go
        let _ = wr_all(1, b"<OUT>");
        let _ = wr_all(2, b"<ERR>");
    }
    if flags.contains(&b'i') {
        // read up to 64 bytes from stdin once and report them
        let mut b = [0u8; 64];
        let n = unsafe { libc::read(0, b.as_mut_ptr() as *mut _, 64) };
        if n >= 0 {
            push_kv(&mut out, "stdin", &b[..n as usize]);
        } else {
            push_kv(&mut out, "stdinerr", format!("{}", errno()).as_bytes());
        }
    }
    push_kv(&mut out, "end", b"");
    // write to a temp name and rename, so the parent never sees a partial report
    let mut tmp = path.to_vec();
    tmp.extend_from_slice(b".tmp\0");
    let mut fin = path.to_vec();
    fin.push(0);
    unsafe {
        let fd = libc::open(tmp.as_ptr() as *const c_char, libc::O_WRONLY | libc::O_CREAT | libc::O_TRUNC | libc::O_CLOEXEC, 0o666);
        if fd >= 0 {
            let _ = wr_all(fd, &out);
            libc::close(fd);
            libc::rename(tmp.as_ptr() as *const c_char, fin.as_ptr() as *const c_char);
        }
    }
    if flags.contains(&b'P') {
        // SIGPIPE probe: wait until told (SIGUSR1 not used: just sleep-poll a go file), then write to stdout
        let mut go = path.to_vec();
        go.extend_from_slice(b".go\0");
        for _ in 0..20000 {
            if unsafe { libc::access(go.as_ptr() as *const c_char, libc::F_OK) } == 0 {
                break;
            }
            sleep_ms(1);
        }
        let big = vec![b'x'; 1 << 17];
        for _ in 0..64 {
            if wr_all(1, &big).is_err() {
                return 77; // EPIPE seen instead of dying: SIGPIPE is not at its default
            }
        }
        return 78;
    }
    if flags.contains(&b'h') {
        // held until the monitor ends it, which it does once the call under observation has returned: said in the
        // process table (comm = "vheld") for the monitor's wait-for analysis
        unsafe { libc::prctl(libc::PR_SET_NAME, b"vheld\0".as_ptr()) };
        loop {
            unsafe { libc::pause() };
        }
    }
    if flags.contains(&b'x') {
        return 0;
    }
    0
}

// ---------------------------------------------------------------- io script

fn mode_io(argc: c_int, argv: *const *const c_char) -> c_int {
    // io <seed> <script> <report>
    if argc < 5 {
        return 2;
    }
    let seed = num(arg_str(argv, 2));
    let script = arg_str(argv, 3).to_string();
    let rep = Rep::open(arg_bytes(argv, 4));
    let mut in_len: u64 = 0;
    let mut in_hash: u64 = FNV_INIT;
    let mut eof = false;
    let mut woff = [0u64; 3];
    let mut buf = vec![0u8; 1 << 20];
    rep.line("start");
    for (idx, op) in script.split(',').enumerate() {
        if op.is_empty() {
            continue;
        }
        let (c, rest) = op.split_at(1);
        match c {
            "r" => {
                let n = (num(rest) as usize).clamp(1, buf.len());
                let r = unsafe { libc::read(0, buf.as_mut_ptr() as *mut _, n) };
                if r > 0 {
                    in_hash = fnv_update(in_hash, &buf[..r as usize]);
                    in_len += r as u64;
                } else if r == 0 {
                    eof = true;
                }
                rep.line(&format!("in {} {} {} {}", in_len, in_hash, eof as u8, idx));
            }
            "R" => {
                loop {
                    let r = unsafe { libc::read(0, buf.as_mut_ptr() as *mut _, buf.len()) };
                    if r > 0 {
                        in_hash = fnv_update(in_hash, &buf[..r as usize]);
                        in_len += r as u64;
                    } else if r == 0 {
                        eof = true;
                        break;
                    } else if errno() != libc::EINTR {
                        rep.line(&format!("readerr {} {}", errno(), idx));
                        break;
                    }
                }
                rep.line(&format!("in {} {} {} {}", in_len, in_hash, eof as u8, idx));
            }
            "w" => {
                // w<s>:<n>:<chunk>
                let p: Vec<&str> = rest.split(':').collect();
                let s = num(p[0]) as usize;
                let mut n = num(p.get(1).unwrap_or(&"0"));
                let chunk = (num(p.get(2).unwrap_or(&"4096")) as usize).clamp(1, buf.len());
                let mut err = 0;
                while n > 0 {
                    let k = std::cmp::min(chunk as u64, n) as usize;
                    pat_fill(seed, s as u64, woff[s], &mut buf[..k]);
                    // one write() call per chunk; continue on partial writes
                    let mut done = 0;
                    while done < k {
                        let r = unsafe { libc::write(s as c_int, buf[done..k].as_ptr() as *const _, k - done) };
                        if r < 0 {
                            if errno() == libc::EINTR {
                                continue;
                            }
                            err = errno();
                            break;
                        }
                        done += r as usize;
                        woff[s] += r as u64;
                    }
                    if err != 0 {
                        break;
                    }
                    n -= k as u64;
                }
                rep.line(&format!("w {} {} {} {}", s, woff[s], err, idx));
            }
            "E" => {
                // E<chunk>:<k>  echo filter: answer each input chunk with k x output
                let p: Vec<&str> = rest.split(':').collect();
                let chunk = (num(p[0]) as usize).clamp(1, buf.len());
                let k = num(p.get(1).unwrap_or(&"1"));
                let mut obuf = vec![0u8; 1 << 16];
                loop {
                    let r = unsafe { libc::read(0, buf.as_mut_ptr() as *mut _, chunk) };
                    if r > 0 {
                        in_hash = fnv_update(in_hash, &buf[..r as usize]);
                        in_len += r as u64;
                        let mut left = r as u64 * k;
                        while left > 0 {
                            let m = std::cmp::min(left, obuf.len() as u64) as usize;
                            pat_fill(seed, 1, woff[1], &mut obuf[..m]);
                            if wr_all(1, &obuf[..m]).is_err() {
                                left = 0;
                                break;
                            }
                            woff[1] += m as u64;
                            left -= m as u64;
                        }
                        let _ = left;
                    } else if r == 0 {
                        eof = true;
                        break;
                    } else if errno() != libc::EINTR {
                        break;
                    }
                }
                rep.line(&format!("in {} {} {} {}", in_len, in_hash, eof as u8, idx));
                rep.line(&format!("w 1 {} 0 {}", woff[1], idx));
            }
            "W" => {
                // W<budget>: keep writing stdout until EOF is seen on stdin, or the budget is used up
                let budget = num(rest);
                let mut written = 0u64;
                let mut gave_up = true;
                while written < budget {
                    let mut pfd = libc::pollfd { fd: 0, events: libc::POLLIN, revents: 0 };
                    let pr = unsafe { libc::poll(&mut pfd, 1, 0) };
                    if pr > 0 {
                        let r = unsafe { libc::read(0, buf.as_mut_ptr() as *mut _, buf.len()) };
                        if r > 0 {
                            in_hash = fnv_update(in_hash, &buf[..r as usize]);
                            in_len += r as u64;
                            continue;
                        } else if r == 0 {
                            eof = true;
                            gave_up = false;
                            break;
                        }
                    }
                    let k = 1024usize;
                    pat_fill(seed, 1, woff[1], &mut buf[..k]);
                    if wr_all(1, &buf[..k]).is_err() {
                        break;
                    }
                    woff[1] += k as u64;
                    written += k as u64;
                }
                rep.line(&format!("in {} {} {} {}", in_len, in_hash, eof as u8, idx));
                rep.line(&format!("W {} {} {}", woff[1], gave_up as u8, idx));
            }
            "Z" => {
                // Z<s>: write to stream s for ever, ignoring every error (`while :; do echo ...; done`).  Only a signal
                // ends it.  Once a write has failed with EPIPE nothing it does can be observed by anybody any more: it
                // says so in the process table (comm = "vforever") for the wait-for analysis of the monitor.
                let s = num(rest) as c_int;
                let mut declared = false;
                pat_fill(seed, s as u64, 0, &mut buf[..4096]);
                loop {
                    let r = unsafe { libc::write(s, buf.as_ptr() as *const _, 4096) };
                    if r < 0 && errno() == libc::EPIPE {
                        if !declared {
                            declared = true;
                            rep.line(&format!("Z epipe-ignored {}", idx));
                            unsafe { libc::prctl(libc::PR_SET_NAME, b"vforever\0".as_ptr()) };
                        }
                        sleep_ms(2);
                    }
                }
            }
            "T" => {
                // T<ms>: job control - stop (SIGSTOP) and be continued <ms> later by a helper process
                let ms = num(rest);
                let me = unsafe { libc::getpid() };
                let helper = unsafe { libc::fork() };
                if helper == 0 {
                    sleep_ms(ms);
                    unsafe {
                        libc::kill(me, libc::SIGCONT);
                        libc::_exit(0);
                    }
                }
                rep.line(&format!("T stopping {}", idx));
                unsafe { libc::raise(libc::SIGSTOP) };
                rep.line(&format!("T continued {}", idx));
            }
            "c" => {
                unsafe { libc::close(num(rest) as c_int) };
                rep.line(&format!("c {} {}", rest, idx));
            }
            "s" => sleep_ms(num(rest)),
            "F" => {
                // fork a descendant that inherits the streams and lingers <ms>
                let ms = num(rest);
                let pid = unsafe { libc::fork() };
                if pid == 0 {
                    sleep_ms(ms);
                    unsafe { libc::_exit(0) };
                }
                rep.line(&format!("F {} {}", pid, idx));
            }
            "x" => {
                rep.line(&format!("exit {} {}", rest, idx));
                unsafe { libc::_exit(num(rest) as c_int) };
            }
            "k" => {
                rep.line(&format!("kill {} {}", rest, idx));
                die_of(num(rest) as c_int);
            }
            _ => {}
        }
    }
    rep.line("done");
    0
}

// ---------------------------------------------------------------- pipeline stage

fn mode_stage(argc: c_int, argv: *const *const c_char) -> c_int {
    // stage <idx> <a> <b> <nerr> <linger_ms> <exit> <report> [<emit>]
    // maps every input byte x to a*x+b, appends the trailer "[idx:len:hash]",
    // writes nerr tagged lines to stderr, lingers after closing stdout, exits.
    // If <emit> is given and > 0, the stage ignores stdin and emits that many pattern bytes (seed = idx).
    if argc < 9 {
        return 2;
    }
    let idx = num(arg_str(argv, 2));
    let a = num(arg_str(argv, 3)) as u8;
    let b = num(arg_str(argv, 4)) as u8;
    let nerr = num(arg_str(argv, 5));
    let linger = num(arg_str(argv, 6));
    let code = num(arg_str(argv, 7)) as c_int;
    let extra = extra_pipe_fds();
    let rep = Rep::open(arg_bytes(argv, 8));
    for x in &extra {
        rep.line(&format!("xfd {}", x));
    }
    let emit = if argc > 9 { num(arg_str(argv, 9)) } else { 0 };
    // optional: stop reading after <take> bytes (a consumer that exits before its input ends, like `head -c N`)
    let take = if argc > 10 { num(arg_str(argv, 10)) } else { 0 };
    let mut buf = vec![0u8; 1 << 16];
    let mut len: u64 = 0;
    let mut h = FNV_INIT;
    let mut errs_done = 0u64;
    let mut werr = 0;
    rep.line(&format!("start {}", unsafe { libc::getpid() }));
    let emit_err = |j: u64| {
        let l = format!("E{}:{}\n", idx, j);
        let _ = wr_all(2, l.as_bytes());
    };
    if nerr > 0 {
        emit_err(0);
        errs_done = 1;
    }
    if emit > 0 {
        let mut off = 0u64;
        while off < emit {
            let k = std::cmp::min(buf.len() as u64, emit - off) as usize;
            pat_fill(idx, 9, off, &mut buf[..k]);
            if let Err(e) = wr_all(1, &buf[..k]) {
                werr = e;
                break;
            }
            off += k as u64;
        }
    } else {
        loop {
            let want = if take > 0 { std::cmp::min(buf.len() as u64, take - len) as usize } else { buf.len() };
            if take > 0 && want == 0 {
                break;
            }
            let r = unsafe { libc::read(0, buf.as_mut_ptr() as *mut _, want) };
            if r > 0 {
                let r = r as usize;
                h = fnv_update(h, &buf[..r]);
                len += r as u64;
                for x in buf[..r].iter_mut() {
                    *x = x.wrapping_mul(a).wrapping_add(b);
                }
                if werr == 0 {
                    if let Err(e) = wr_all(1, &buf[..r]) {
                        werr = e;
                    }
                }
                if errs_done < nerr && errs_done * 4096 < len {
                    emit_err(errs_done);
                    errs_done += 1;
                }
            } else if r == 0 {
                break;
            } else if errno() != libc::EINTR {
                break;
            }
        }
        let t = format!("[{}:{}:{:016x}]", idx, len, h);
        if werr == 0 {
            if let Err(e) = wr_all(1, t.as_bytes()) {
                werr = e;
            }
        }
    }
    while errs_done < nerr {
        emit_err(errs_done);
        errs_done += 1;
    }
    rep.line(&format!("eof {} {:016x} {}", len, h, werr));
    unsafe {
        libc::close(1);
        libc::close(0);
        // optional 11th argument: 1 = also give up stderr before lingering (a daemonising command: all three standard
        // streams closed, still running)
        if argc > 11 && num(arg_str(argv, 11)) == 1 {
            libc::close(2);
        }
    }
    if linger > 0 {
        sleep_ms(linger);
    }
    rep.line(&format!("exit {}", code));
    code
}

// ---------------------------------------------------------------- controlled exit

fn mode_ctl(_argc: c_int, argv: *const *const c_char) -> c_int {
    // ctl <fifo>: block until the monitor writes a 2-byte command: ('x', code) or ('k', sig)
    let mut p = arg_bytes(argv, 2).to_vec();
    p.push(0);
    let fd = unsafe { libc::open(p.as_ptr() as *const c_char, libc::O_RDONLY | libc::O_CLOEXEC) };
    if fd < 0 {
        return 99;
    }
    let mut cmd = [0u8; 2];
    let mut got = 0;
    while got < 2 {
        let r = unsafe { libc::read(fd, cmd[got..].as_mut_ptr() as *mut _, 2 - got) };
        if r > 0 {
            got += r as usize;
        } else if r == 0 {
            return 98;
        } else if errno() != libc::EINTR {
            return 97;
        }
    }
    match cmd[0] {
        b'x' => cmd[1] as c_int,
        b'k' => {
            die_of(cmd[1] as c_int);
            96
        }
        b'K' => {
            // like 'k', but let the kernel write a core file (in the directory of the fifo) if the signal dumps core
            let dir_end = p.iter().rposition(|&c| c == b'/').unwrap_or(0);
            let mut d = p[..dir_end].to_vec();
            d.push(0);
            unsafe {
                libc::chdir(d.as_ptr() as *const c_char);
                let lim = libc::rlimit { rlim_cur: 1 << 20, rlim_max: 1 << 20 };
                libc::setrlimit(libc::RLIMIT_CORE, &lim);
                libc::prctl(libc::PR_SET_DUMPABLE, 1, 0, 0, 0);
                let sig = cmd[1] as c_int;
                libc::signal(sig, libc::SIG_DFL);
                let mut set: libc::sigset_t = std::mem::zeroed();
                libc::sigemptyset(&mut set);
                libc::sigaddset(&mut set, sig);
                libc::sigprocmask(libc::SIG_UNBLOCK, &set, std::ptr::null_mut());
                libc::kill(libc::getpid(), sig);
            }
            sleep_ms(2000);
            94
        }
        _ => 95,
    }
}
